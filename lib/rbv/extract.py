"""Assemble a single-file Verus input from a .vu unit: verbatim Verus text plus items cut out of the
scratch copy of the repository, with contract text spliced in.  Only additions are spliced; the fixed
rewrite list (R1, R2, R4, ret-naming) is applied mechanically and every application is recorded."""
import hashlib
import os
import re
import shlex

from .rustlex import Source, match_close


class AnchorLost(Exception):
    pass


class UnitSyntax(Exception):
    pass


PANIC_MACROS = {'panic', 'unreachable', 'unimplemented', 'todo'}
DEBUG_MACROS = {'debug_assert', 'debug_assert_eq', 'debug_assert_ne'}
LOOP_KW = {'loop', 'while', 'for'}


def parse_selectors(text):
    sels = []
    for part in [p.strip() for p in text.split('::')]:
        m = re.match(r'^(fn|struct|enum|trait|mod|const|type|macro_rules|static)\s+(\w+)(?:\s+(#\[.*\]))?$', part)
        if m:
            # `fn NAME #[ATTR]`: among the items of that name only the one carrying exactly this attribute (two `fn run` under
            # `#[cfg(windows)]` / `#[cfg(not(windows))]`); kept in the pattern after a NUL so that selectors stay pairs
            sels.append((m.group(1), m.group(2) + ('\0' + ''.join(m.group(3).split()) if m.group(3) else '')))
            continue
        m = re.match(r'^impl\s+/(.*)/$', part)
        if m:
            sels.append(('impl', m.group(1)))
            continue
        raise UnitSyntax('bad selector %r' % part)
    return sels


class Piece:
    __slots__ = ('text', 'ofile', 'oline')

    def __init__(self, text, ofile, oline):
        self.text, self.ofile, self.oline = text, ofile, oline


class FnTarget:
    """splices addressed to one fn"""

    def __init__(self, name):
        self.name = name
        self.ret = None
        self.spec = None
        self.head = None
        self.loops = {}
        self.loop_iters = {}   # loop ordinal -> name of the Verus ghost iterator (`for p in NAME: e`)
        self.loop_parts = {}   # ('head'|'tail'|'before', loop key) -> ghost text put after the '{' / before the '}' of the loop body / before the loop statement
        self.hints = []
        self.optional = set()  # ('loop', key) / ('iter', key) / ('hint', text): spliced if the anchor exists, skipped otherwise
        self.tail = None       # proof text put before the closing brace of the body (unit-returning fns only)
        self.closures = {}     # closure ordinal -> contract text for the k-th closure expression of the body
        self.params_to_let = False  # R8: destructuring closure parameters become a `let` at the head of the closure body
        self.map_to_match = set()   # R13: headers of closures whose `RECV.map(|p| body)` is written out as a match
        self.let_chains = False  # R16: `if let P = e && c { body }` (no else) written as nested ifs
        self.tfe = {}          # R15: closure header -> (loop spec text, ghost iterator name) for `RECV.try_for_each(|p| body)` written out as a loop
        self.omit = False
        self.canary = True
        self.opt_member = False  # `//@ fn? NAME`: the member may be absent from the impl/trait (skipped + recorded)
        self.tfe_tail = None   # R18: (ghost iterator name or None, invariant text) for `RECV.iter().try_for_each(|p| body)` in tail position
        self.attrs = None      # `//@ fn-prefix`: attribute text put before this fn (e.g. #[verifier::when_used_as_spec(..)])


class Block:
    def __init__(self, relpath, selectors, vu_line):
        self.relpath = relpath
        self.selectors = selectors
        self.vu_line = vu_line
        self.fns = {}          # name -> FnTarget
        self.cur = None
        self.members = []      # ghost members for impl/trait blocks
        self.keep_attrs = False
        self.bare = False
        self.prefix = ''       # text put before the item (e.g. attributes for verus)
        self.optional = False  # `//@ extract?`: skip the block when the item is absent
        self.decl_only = False  # from `//@ include-external`: emit fns as external_body declarations carrying the spec
        self.diverge = False   # R2b instead of R2 for the panics of this block
        self.enum_to_counter = False  # R14: `for (i, p) in e.enumerate()` written with an explicit counter
        self.eta = []          # constructor paths to eta-expand where passed as a function value (R9)
        self.eta_found = {}
        self.eta_optional = set()
        self.head_all = None   # head text for every fn of the block (a fn's own `head` is put after it)
        self.trait_decl_only = False  # R12 (`//@ decl-only`): a trait is emitted as declarations only (default bodies dropped, specs kept)
        self.params_to_let_all = False  # R8 for every fn of the block
        self.let_chains_all = False  # R16 for every fn of the block
        self.impl_to_generic = False  # R11: `x: &impl Trait` parameters become a named type parameter
        self.sized = False     # R17: `trait X<..>` emitted as `trait X<..>: Sized` (no unsized implementor / trait object in the crate)
        self.let_chain = False  # R16: `if let P = E && C { B }` (no else) written as nested ifs
        self.instantiate = None  # R19: (generics, {param: type}, where) -- a blanket impl emitted at given type arguments
        self.as_spec = None    # R10: emit the selected fn a second time as `pub closed spec fn <as_spec>` (its spec twin)


def _loop_key(arg):
    """a loop is addressed by its ordinal (`loop 2`) or by a text its header contains (`loop /self.states.iter_mut()/`)"""
    arg = arg.strip()
    if len(arg) >= 2 and arg[0] == '/' and arg[-1] == '/':
        return arg[1:-1]
    return int(arg)


def _split_loop_arg(arg):
    """'<key> [iter=NAME]' where key is an ordinal or /text/ -> (key, [options])"""
    arg = arg.strip()
    if arg.startswith('/'):
        e = arg.rindex('/')
        return _loop_key(arg[:e + 1]), arg[e + 1:].split()
    parts = arg.split()
    return _loop_key(parts[0]), parts[1:]


def _loop_match(d, loop_no, header):
    """key of d addressing this loop, or None"""
    if loop_no in d:
        return loop_no
    for key in d:
        if isinstance(key, str) and key in header:
            return key
    return None


def _stmt_end(st, k):
    """index after an optional ';' following st[k]"""
    if k + 1 < len(st) and st[k + 1].text == ';':
        return k + 1
    return k


class Assembler:
    def __init__(self, scratch_repo, unit_path):
        self.repo = scratch_repo
        self.unit_path = unit_path
        self.sources = {}
        self.pieces = []
        self.meta = {'unit': None, 'props': [], 'expected': 'discharged', 'min_obligations': 1,
                     'declare': {}, 'companions': [], 'label': 'proved', 'tier': 'quick', 'notes': []}
        self.extracted = []     # dicts: file, item, sha256, lines
        self.dropped = []       # R1 deletions etc.
        self.rewrites = []      # R2 etc.
        self.canaries = 0
        self.fn_origin = {}     # fn name -> (file, item path)

    def source(self, rel):
        if rel not in self.sources:
            p = '%s/%s' % (self.repo, rel)
            try:
                text = open(p).read()
            except OSError:
                raise AnchorLost('file %s no longer exists' % rel)
            self.sources[rel] = Source(rel, text)
        return self.sources[rel]

    # -- parsing the .vu --------------------------------------------------------------------
    def assemble(self, canary=False, drop_kf=()):
        """drop_kf: finding ids whose carve-out lines (marked `// KF:<ID>`) are removed from the unit text"""
        self.drop_kf = set(drop_kf)
        self.pieces = []
        self.extracted = []
        self.dropped = []
        self.rewrites = []
        self.canaries = 0
        lines = self._with_includes(open(self.unit_path).read().split('\n'))
        if True:
            lines = [l for l in lines if not any(re.search(r'//\s*KF:%s\b' % re.escape(k), l) for k in self.drop_kf)]
            # `// KFOFF:<ID>` lines are the counterpart: present only while the finding is NOT listed open
            lines = [l for l in lines if not any(m not in self.drop_kf for m in re.findall(r'//\s*KFOFF:(\w+)', l))]
        i = 0
        verb_start = None
        verb = []

        def flush():
            nonlocal verb, verb_start
            if verb:
                self.pieces.append(Piece('\n'.join(verb) + '\n', self.unit_path, verb_start))
            verb, verb_start = [], None

        while i < len(lines):
            ln = lines[i]
            s = ln.strip()
            if s.startswith('//#'):
                self._meta(s[3:].strip())
                i += 1
                continue
            if s.startswith('//@ extract ') or s.startswith('//@ extract? '):
                flush()
                m = re.match(r'//@ extract(\??)\s+(!decl\s+)?(\S+)\s*::\s*(.*)$', s)
                if not m:
                    raise UnitSyntax('line %d: bad extract' % (i + 1))
                blk = Block(m.group(3), parse_selectors(m.group(4)), i + 1)
                blk.decl_only = bool(m.group(2))
                # `//@ extract? ...`: the block is skipped (recorded), not an anchor loss, when the item does not exist --
                # lets one unit assemble against two shapes of the tree (before and after a repair); the contract decides
                blk.optional = bool(m.group(1))
                i += 1
                cur_field = None
                buf = []

                def close_field():
                    nonlocal cur_field, buf
                    if cur_field is None:
                        return
                    text = '\n'.join(buf)
                    kind = cur_field[0]
                    tgt = blk.cur
                    if kind == 'member':
                        blk.members.append(text)
                    elif kind == 'prefix':
                        blk.prefix = text
                    elif kind == 'head-all':
                        blk.head_all = text
                    elif tgt is None:
                        raise UnitSyntax('line %d: %s outside a fn target' % (blk.vu_line, kind))
                    elif kind == 'spec':
                        tgt.spec = text
                    elif kind == 'fn-prefix':
                        tgt.attrs = text
                    elif kind == 'head':
                        tgt.head = text
                    elif kind == 'loop':
                        tgt.loops[cur_field[1]] = text
                    elif kind == 'loop-part':
                        tgt.loop_parts[(cur_field[1], cur_field[2])] = text
                    elif kind == 'tail':
                        tgt.tail = text
                    elif kind == 'tfe_tail':
                        tgt.tfe_tail = (cur_field[1], text)
                    elif kind == 'closure':
                        tgt.closures[cur_field[1]] = text
                    elif kind == 'tfe':
                        tgt.tfe[cur_field[1]] = (text, cur_field[2])
                    elif kind == 'hint-last':
                        tgt.hints.append(('#LAST ' + cur_field[1], text, False))
                    elif kind == 'hint':
                        tgt.hints.append((cur_field[1], text, False))
                    elif kind == 'hint-after':
                        tgt.hints.append((cur_field[1], text, True))
                    cur_field, buf = None, []

                # default target: the selected item itself if it is a fn
                if blk.selectors[-1][0] == 'fn':
                    fn_name = blk.selectors[-1][1].partition('\0')[0]
                    blk.cur = blk.fns.setdefault(fn_name, FnTarget(fn_name))
                while i < len(lines):
                    s2 = lines[i].strip()
                    if s2.startswith('//@'):
                        d = s2[3:].strip()
                        close_field()
                        if d == 'end':
                            break
                        elif d.startswith('fn? '):
                            # optional member target: when the impl/trait has no fn NAME the splices addressed to it are
                            # skipped (recorded `O ...`) instead of ending anchor-lost -- a method that exists only after
                            # a repair; the contracts of the members that DO exist decide
                            nm = d[4:].strip()
                            blk.cur = blk.fns.setdefault(nm, FnTarget(nm))
                            blk.cur.opt_member = True
                        elif d.startswith('fn '):
                            nm = d[3:].strip()
                            blk.cur = blk.fns.setdefault(nm, FnTarget(nm))
                        elif d.startswith('omit fn '):
                            nm = d[8:].strip()
                            blk.fns.setdefault(nm, FnTarget(nm)).omit = True
                        elif d.startswith('ret '):
                            blk.cur.ret = d[4:].strip()
                        elif d == 'spec':
                            cur_field = ('spec',)
                        elif d == 'head':
                            cur_field = ('head',)
                        elif d == 'member':
                            cur_field = ('member',)
                        elif d == 'head-all':
                            cur_field = ('head-all',)
                        elif d == 'prefix':
                            cur_field = ('prefix',)
                        elif re.match(r'loop-(head|tail|before|after)\??\s', d):
                            # ghost text addressed by LOOP (ordinal or /header text/), not by statement text: put right after
                            # the '{' of the loop body (head), right before its '}' (tail), or before the loop statement
                            # (before) or after its closing '}' (after).  Survives renamings and statement edits inside the loop that a `hint` anchor does not.
                            # `loop-head? KEY` etc.: optional like `loop?` (skipped when the loop does not exist)
                            mo_ = re.match(r'loop-(head|tail|before|after)(\??)\s+(.*)$', d)
                            cur_field = ('loop-part', mo_.group(1), _loop_key(mo_.group(3).strip()))
                            if mo_.group(2):
                                blk.cur.optional.add(('loop-part', mo_.group(1), cur_field[2]))
                        elif d == 'fn-prefix':
                            # like `prefix`, but for the fn target addressed by the preceding `//@ fn NAME` of a whole impl/trait
                            cur_field = ('fn-prefix',)
                        elif d.startswith('loop? ') or d.startswith('loop '):
                            # optional variants (`loop?`, `iter?`, `hint?`): the splice is skipped, not an anchor
                            # loss, when the loop/statement does not exist -- lets one unit assemble against two
                            # shapes of a function (e.g. before and after a repair); the contract decides
                            opt_ = d.startswith('loop? ')
                            key_, opts_ = _split_loop_arg(d[6:] if opt_ else d[5:])
                            cur_field = ('loop', key_)
                            if opt_:
                                blk.cur.optional.add(('loop', key_))
                            for opt in opts_:
                                if not re.match(r'^iter=[A-Za-z_]\w*$', opt):
                                    raise UnitSyntax('line %d: bad loop option %r' % (i + 1, opt))
                                blk.cur.loop_iters[key_] = opt[5:]
                        elif d == 'tail':
                            cur_field = ('tail',)
                        elif d.startswith('closure-all? ') or d.startswith('closure-all '):
                            # `closure-all /|params|/`: the contract text applies to EVERY closure of the body whose parameter
                            # list reads like that (at least one, unless `closure-all?`); `$body` in the text stands for the
                            # closure's own body expression ("returns what its body evaluates to": `-> (b: bool) ensures b == ($body)`).
                            # Survives adding / removing / reordering such closures, unlike ordinals.
                            opt_ = d.startswith('closure-all? ')
                            key_ = _loop_key(d[13:] if opt_ else d[12:])
                            if not isinstance(key_, str):
                                raise UnitSyntax('line %d: closure-all needs /|params|/' % (i + 1))
                            key_ = '*' + key_
                            cur_field = ('closure', key_)
                            if opt_:
                                blk.cur.optional.add(('closure', key_))
                        elif d.startswith('closure? ') or d.startswith('closure '):
                            # a closure is addressed by its ordinal (`closure 2`) or by its parameter list written as it
                            # stands in the source (`closure /|global_names|/`, `closure /||/`); `closure?` = optional
                            opt_ = d.startswith('closure? ')
                            key_ = _loop_key(d[9:] if opt_ else d[8:])
                            cur_field = ('closure', key_)
                            if opt_:
                                blk.cur.optional.add(('closure', key_))
                        elif d.startswith('iter? ') or d.startswith('iter '):
                            opt_ = d.startswith('iter? ')
                            n_, nm_ = (d[6:] if opt_ else d[5:]).rsplit(None, 1)
                            blk.cur.loop_iters[_loop_key(n_)] = nm_
                            if opt_:
                                blk.cur.optional.add(('iter', _loop_key(n_)))
                        elif d.startswith('hint? '):
                            cur_field = ('hint', d[6:].strip())
                            blk.cur.optional.add(('hint', cur_field[1]))
                        elif d.startswith('hint-last '):
                            # like hint, but anchors at the LAST occurrence of the text
                            cur_field = ('hint-last', d[10:].strip())
                        elif d.startswith('hint-after '):
                            cur_field = ('hint-after', d[11:].strip())
                        elif d.startswith('hint '):
                            cur_field = ('hint', d[5:].strip())
                        elif d == 'keep-attrs':
                            blk.keep_attrs = True
                        elif d == 'decl-only':
                            blk.trait_decl_only = True
                        elif d == 'impl-trait-to-generic':
                            blk.impl_to_generic = True
                        elif d == 'bare':
                            blk.bare = True
                        elif d == 'closure-params-to-let':
                            if blk.cur is None:
                                # before any `//@ fn` of a whole impl/trait/mod: R8 for every fn of the block
                                blk.params_to_let_all = True
                            else:
                                blk.cur.params_to_let = True
                        elif d.startswith('result-map-to-match? ') or d.startswith('result-map-to-match '):
                            # R13 (opt-in): `RECV.map(|p| body)` on a Result, addressed by the closure's parameter list
                            # `/|p|/`, is written out by the definition of Result::map:
                            # `match RECV { Ok(p) => Ok(body), Err(e) => Err(e) }` (Verus rejects a closure that captures
                            # a mutable reference; on a receiver that is not a Result the match does not type-check -> UNDECIDED)
                            # `result-map-to-match?`: skipped when the fn has no such `.map(` (another shape of the fn)
                            opt_ = d.startswith('result-map-to-match? ')
                            key_ = _loop_key(d.split(None, 1)[1])
                            if not isinstance(key_, str):
                                raise UnitSyntax('line %d: result-map-to-match needs /|params|/' % (i + 1))
                            blk.cur.map_to_match.add(''.join(key_.split()))
                            if opt_:
                                blk.cur.optional.add(('map-to-match', ''.join(key_.split())))
                        elif d.startswith('try-for-each-to-loop? ') or d.startswith('try-for-each-to-loop '):
                            # R15 (opt-in): `RECV.try_for_each(|p| body)`, addressed by the closure's parameter list `/|p|/`, is
                            # written out by the definition of Iterator::try_for_each for a Result ("applies a fallible function
                            # to each item, stopping at the first error and returning that error"):
                            #   { let mut __rbv_tfe_r_N = Ok(()); let __rbv_tfe_v_N = RECV; let __rbv_tfe_f_N = rbv_tfe_typed_iter(&__rbv_tfe_v_N, |p| body);
                            #     for __rbv_tfe_x_N in ITER: __rbv_tfe_v_N  <the text of this field: invariant .. ensures ..>
                            #     { match __rbv_tfe_f_N(__rbv_tfe_x_N) { Ok(()) => {} Err(e) => { __rbv_tfe_r_N = Err(e); break; } } }
                            #     __rbv_tfe_r_N }
                            # (N = ordinal of the rewrite in the fn; ITER = `iter=NAME`, default __rbv_tfe_it_N).  A `.into_iter()` that
                            # ends RECV is dropped (`for` applies it) and `let ghost __rbv_tfe_s_N = __rbv_tfe_v_N@;` names the items (for a
                            # receiver that is an iterator: `= __rbv_tfe_v_N.remaining();`, vstd::std_specs::iter::IteratorSpec in scope).
                            # `rbv_tfe_typed_iter` / `rbv_tfe_typed_vec` (units/verus/rbv_tfe.vui, included by the unit) are the identity on the
                            # closure; they only give rustc the parameter type that try_for_each's signature gave it.
                            # The closure keeps its own tokens (`closure` / `closure-params-to-let` apply to it as usual).  Verus has no
                            # specification for try_for_each and refuses an assume_specification for a provided trait method.
                            # In the field text `$r` `$f` `$s` `$v` stand for the generated names of result / closure / item sequence / receiver;
                            # a line `@before` / `@after` starts ghost text put right before the loop / between the loop and the result.
                            opt_ = d.startswith('try-for-each-to-loop? ')
                            rest_ = d.split(None, 1)[1].strip()
                            e_ = rest_.rindex('/') if '/' in rest_ else -1
                            # `try-for-each-to-loop K` addresses the K-th closure of the fn instead (two calls whose closures read alike)
                            if rest_.startswith('/'):
                                key_, tail_ = _loop_key(rest_[:e_ + 1]), rest_[e_ + 1:]
                            else:
                                key_, tail_ = int(rest_.split()[0]), ' '.join(rest_.split()[1:])
                            it_ = None
                            for opt in tail_.split():
                                if not re.match(r'^iter=[A-Za-z_]\w*$', opt):
                                    raise UnitSyntax('line %d: bad try-for-each-to-loop option %r' % (i + 1, opt))
                                it_ = opt[5:]
                            if isinstance(key_, str):
                                key_ = ''.join(key_.split())
                            cur_field = ('tfe', key_, it_)
                            if opt_:
                                blk.cur.optional.add(('tfe', key_))
                        elif d == 'let-chains-to-nested-if':
                            # R16 (opt-in): an `if` WITHOUT else whose condition is a let-chain, `if let P = e && c && let Q = f { body }`,
                            # is written as nested ifs, `if let P = e { if c { if let Q = f { body } } }` -- the definition of `&&` in a
                            # condition (left to right, later conjuncts see the earlier bindings; an `if` without else has the value ()).
                            # Refused (anchor lost) when an `else` follows.  Verus' front end rejects let-chains.
                            if blk.cur is None:
                                blk.let_chains_all = True
                            else:
                                blk.cur.let_chains = True
                        elif d == 'no-canary':
                            blk.cur.canary = False
                        elif d.startswith('as-spec '):
                            # R10: the selected fn (a pure function: match / boolean operators / calls of fns that have
                            # a spec twin themselves) is emitted as `pub closed spec fn NAME` with its body verbatim: the
                            # SPEC TWIN of the real fn.  The unit extracts the real fn as well and proves
                            # `ensures r == twin(..)`, so the twin is derived from the current tree on every run and
                            # checked against the executable text; nothing is hand-copied.
                            blk.as_spec = d[8:].strip()
                        elif d.startswith('eta? '):
                            # optional: when the constructor is no longer passed as a function value the rewrite is skipped
                            # (the contract of the fn decides) instead of ending anchor-lost
                            blk.eta.append(d[5:].strip())
                            blk.eta_optional.add(d[5:].strip())
                        elif d.startswith('eta '):
                            # R8: a tuple-struct/variant constructor passed as a function value, `f(Path::Ctor)`, is
                            # eta-expanded to `f(|eta_x| Path::Ctor(eta_x))` (Verus: "using a datatype constructor as a
                            # function value" is unsupported); same meaning
                            # `//@ eta Path::f -> (r: T) ensures ..`: the text after the path is the contract of the closure
                            # the expansion introduces: `f(|eta_x| -> (r: T) ensures .. { Path::f(eta_x) })`
                            blk.eta.append(d[4:].strip())
                        elif d.startswith('instantiate '):
                            # R19 (opt-in, whole impl block): a generic (blanket) impl is emitted INSTANTIATED at the given type
                            # arguments: `//@ instantiate <Q> | P = Deep<Q> | T = StatementPos | where Q: Visitor<Statement>`
                            # -- the generics list of the impl header is replaced by `<Q>`, its where clause by the given one, and
                            # every occurrence of a substituted type parameter in the header and the body by its argument; no other
                            # token changes.  That is the definition of instantiating a generic item; rustc checks that the
                            # instance is well-typed (the bounds of the real impl must hold for the arguments, or the calls of
                            # the body do not resolve).  Verus rejects recursion that passes a trait impl to a blanket impl as a
                            # dictionary ("cyclic self-reference"); on the instances the same calls are ordinary static recursion.
                            parts_ = [x.strip() for x in d[len('instantiate '):].split(' | ')]
                            gen_, subst_, where_ = parts_[0], {}, ''
                            if not (gen_.startswith('<') and gen_.endswith('>')):
                                raise UnitSyntax('line %d: instantiate needs the new generics list first (`<>` for none)' % (i + 1))
                            for p_ in parts_[1:]:
                                if p_.startswith('where ') or p_ == 'where':
                                    where_ = p_
                                elif '=' in p_:
                                    a_, b_ = p_.split('=', 1)
                                    subst_[a_.strip()] = b_.strip()
                                else:
                                    raise UnitSyntax('line %d: bad instantiate part %r' % (i + 1, p_))
                            blk.instantiate = (gen_, subst_, where_)
                        elif d in ('tail-try-for-each-to-loop', 'tail-try-for-each-to-loop?') or d.startswith('tail-try-for-each-to-loop ') or d.startswith('tail-try-for-each-to-loop? '):
                            # R18 (opt-in, per fn target; the lines that follow are the loop annotation, `iter=NAME` names the ghost
                            # iterator): the TAIL expression `RECV.iter().try_for_each(|PAT| BODY)` of the fn is written by the
                            # definition of Iterator::try_for_each for a Result:
                            #     for PAT in [NAME:] RECV.iter() <annotation> { (BODY)?; } Ok(())
                            # (stops at the first Err and returns it, otherwise Ok(()); in tail position the `?` returns exactly that
                            # error from the fn, whose error type is the closure's -- the original would not type-check otherwise).
                            # vstd has no specification for the adapter and Verus rejects the closure that borrows `self` mutably.
                            # Anchor lost when the fn has no such tail expression.
                            # `tail-try-for-each-to-loop?`: when the fn no longer ends in such a call the rewrite is skipped (recorded) and the
                            # contract of the fn decides, instead of ending anchor-lost
                            opts_ = d[len('tail-try-for-each-to-loop'):].split()
                            if opts_ and opts_[0] == '?':
                                opts_ = opts_[1:]
                                blk.cur.optional.add(('tfe_tail',))
                            elif d.startswith('tail-try-for-each-to-loop?'):
                                opts_ = d[len('tail-try-for-each-to-loop?'):].split()
                                blk.cur.optional.add(('tfe_tail',))
                            nm_ = None
                            for opt in opts_:
                                if not re.match(r'^iter=[A-Za-z_]\w*$', opt):
                                    raise UnitSyntax('line %d: bad tail-try-for-each-to-loop option %r' % (i + 1, opt))
                                nm_ = opt[5:]
                            cur_field = ('tfe_tail', nm_)
                        elif d == 'supertrait-sized':
                            # R17 (opt-in, trait block): the trait is emitted with the supertrait `Sized`.  A ghost `spec fn` member whose
                            # result mentions `Self` by value (the state of a visitor AFTER a call) needs it; refused (anchor lost) when
                            # the crate names the trait as a trait object (`dyn NAME`) or relaxes an implementor with `?Sized` next to it:
                            # then every implementor is a sized type and the bound holds for each of them -- no call changes meaning.
                            blk.sized = True
                        elif d == 'let-chain-to-nested-if':
                            # R16 (opt-in, per block): an `if` WITHOUT `else` whose condition is a let-chain, `if A && B && C { BODY }`
                            # with at least one `let PAT = EXPR` among A, B, C, is written as the nested ifs `if A { if B { if C { BODY } } }`
                            # -- the definition of a let-chain when there is no else branch (left to right, short-circuit, the bindings
                            # of a `let` in scope of everything after it).  Verus: "does not yet support ... let expressions".
                            # Only the `&&` tokens at nesting depth 0 of the condition are replaced (by ` { if `) and the closing braces
                            # added after the body; an `if` with an `else` is refused (anchor lost).
                            blk.let_chain = True
                        elif d == 'enumerate-to-counter':
                            # R14 (opt-in): `for (IDX, PAT) in EXPR.enumerate() { BODY }` is written out with an explicit counter:
                            # `let mut __rbv_enum_N: usize = 0; for PAT in EXPR { let IDX = __rbv_enum_N; BODY __rbv_enum_N += 1; }`
                            # (N = ordinal of the loop in the fn; a trailing `.into_iter()` of EXPR is dropped: `for` applies it).
                            # That is the definition of Enumerate (count starts at 0, +1 per item); Verus has no specification for
                            # the adapter.  Refused (anchor lost) when the body contains `continue`.
                            blk.enum_to_counter = True
                        elif d == 'panics-diverge':
                            # R2b: partial-correctness reading of panic!/unreachable!/..: the macro call is replaced
                            # by a call of the unit's own `rbv_diverge()` (declared external_body, `ensures false`:
                            # a panic does not return) instead of `unreached()` (`requires false`)
                            blk.diverge = True
                        else:
                            raise UnitSyntax('line %d: unknown directive %r' % (i + 1, d))
                    else:
                        if cur_field is not None:
                            buf.append(lines[i])
                        elif s2:
                            raise UnitSyntax('line %d: text outside a field in extract block' % (i + 1))
                    i += 1
                else:
                    raise UnitSyntax('extract block at line %d not closed' % blk.vu_line)
                i += 1
                self._emit_block(blk, canary)
                continue
            if s.startswith('//@ require-text '):
                # guard for declarations that cannot be extracted (macro-generated items): the given text must
                # still be present (whitespace-insensitively) in the file, otherwise the unit is anchor-lost
                m = re.match(r'//@ require-text\s+(\S+)\s*::\s*(.*)$', s)
                if not m:
                    raise UnitSyntax('line %d: bad require-text' % (i + 1))
                have = ' '.join(self.source(m.group(1)).text.split())
                want = ' '.join(m.group(2).split())
                if want not in have:
                    raise AnchorLost('required text %r no longer in %s' % (want, m.group(1)))
                self.rewrites.append('G %s: guard text present: %s' % (m.group(1), want))
                i += 1
                continue
            if s.startswith('//@'):
                raise UnitSyntax('line %d: directive %r outside extract block' % (i + 1, s))
            if verb_start is None:
                verb_start = i + 1
            verb.append(ln)
            i += 1
        flush()
        return ''.join(p.text for p in self.pieces)

    def _with_includes(self, lines, depth=0):
        """`//@ include NAME` (outside extract blocks) is replaced by the lines of NAME, a file next to the unit
        (shared contract text, e.g. the trait-level parser contract used by several units)"""
        out = []
        for ln in lines:
            m = re.match(r'\s*//@ include\s+(\S+)\s*$', ln)
            mx = re.match(r'\s*//@ include-external\s+(\S+)\s*$', ln)
            if mx:
                # `//@ include-external NAME`: the extract blocks of NAME are emitted as DECLARATIONS -- the real signature
                # and the block's `ret`/`spec`, body replaced by `{ unimplemented!() }` under #[verifier::external_body] --
                # so that a caller is checked against literally the contract that the unit including NAME with
                # `//@ include` proves on the body (modular verification; the two texts cannot drift apart)
                inc = os.path.join(os.path.dirname(self.unit_path), mx.group(1))
                try:
                    inc_lines = open(inc).read().split('\n')
                except OSError:
                    raise UnitSyntax('include file %s not found' % inc)
                for l2 in self._with_includes(inc_lines, depth + 1):
                    # (idempotent: a block that already is a declaration through a nested include-external stays one)
                    out.append(re.sub(r'^(\s*)//@ extract(\??) (?!!decl )', r'\1//@ extract\2 !decl ', l2))
                continue
            if not m:
                out.append(ln)
                continue
            if depth > 3:
                raise UnitSyntax('include nesting too deep at %r' % ln)
            inc = os.path.join(os.path.dirname(self.unit_path), m.group(1))
            try:
                inc_lines = open(inc).read().split('\n')
            except OSError:
                raise UnitSyntax('include file %s not found' % inc)
            out.extend(self._with_includes(inc_lines, depth + 1))
        return out

    def _meta(self, d):
        parts = shlex.split(d)
        if not parts:
            return
        k = parts[0]
        if k == 'unit':
            self.meta['unit'] = parts[1]
            for kv in parts[2:]:
                a, _, b = kv.partition('=')
                self.meta[a] = b
        elif k == 'props':
            self.meta['props'] = parts[1:]
        elif k == 'expected':
            self.meta['expected'] = parts[1]
        elif k == 'min_obligations':
            self.meta['min_obligations'] = int(parts[1])
        elif k == 'declare':
            for kv in parts[1:]:
                a, _, b = kv.partition('=')
                self.meta['declare'][a] = int(b)
        elif k == 'companion':
            self.meta['companions'].append(parts[1])
        elif k == 'assume':
            self.meta['notes'].append(' '.join(parts[1:]))
        elif k == 'tier':
            self.meta['tier'] = parts[1]
        elif k == 'timeout':
            self.meta['timeout'] = int(parts[1])
        elif k == 'rlimit':
            self.meta['rlimit'] = parts[1]
        elif k == 'only':
            # `//# only C06 <regex>`: for that property only the obligations whose name matches count (the unit still runs whole)
            self.meta.setdefault('only', {})[parts[1]] = ' '.join(parts[2:])
        else:
            self.meta.setdefault('other', []).append(d)

    # -- emitting one extracted item --------------------------------------------------------
    def _emit_block(self, blk, canary):
        src = self.source(blk.relpath)
        try:
            item, parents = src.find(blk.selectors)
        except LookupError as e:
            if blk.optional:
                self.dropped.append('O %s optional item absent, block skipped: %s' % (blk.relpath, e))
                return
            raise AnchorLost(str(e))
        text = src.text
        edits = []  # (start, end, new_text)

        def fn_edits(fn_item, tgt):
            if blk.impl_to_generic:
                self._impl_trait_edits(src, blk, fn_item, edits)
            if tgt and not getattr(tgt, 'params_resolved', False):
                # `$N` in a spec / loop / head / hint text = the name of the N-th parameter after the receiver, as it
                # is written in the tree (a contract that survives the renaming of a parameter, `_dim_list` -> `dim_list`)
                tgt.params_resolved = True
                used = [bool(x and re.search(r'\$\d', x)) for x in
                        [tgt.spec, tgt.head, tgt.tail, (tgt.tfe_tail[1] if tgt.tfe_tail else None)] + list(tgt.loops.values()) + [h[1] for h in tgt.hints]]
                if any(used):
                    names = self._param_names(src, fn_item)

                    def _sub(mo):
                        n = int(mo.group(1))
                        if not (1 <= n <= len(names)):
                            raise AnchorLost('fn %s has no parameter #%d (%s)' % (fn_item.name, n, blk.relpath))
                        return names[n - 1]

                    def _res(x):
                        return re.sub(r'\$(\d)', _sub, x) if x else x
                    tgt.spec, tgt.head, tgt.tail = _res(tgt.spec), _res(tgt.head), _res(tgt.tail)
                    tgt.loops = {k_: _res(v_) for k_, v_ in tgt.loops.items()}
                    tgt.hints = [(a_, _res(b_), c_) for (a_, b_, c_) in tgt.hints]
                    if tgt.tfe_tail:
                        tgt.tfe_tail = (tgt.tfe_tail[0], _res(tgt.tfe_tail[1]))
                    self.rewrites.append('P %s fn %s: $N in the spliced text = parameter names %s' % (blk.relpath, fn_item.name, names))
            if tgt and tgt.attrs:
                edits.append((fn_item.kw_start, fn_item.kw_start, tgt.attrs.strip() + '\n'))
            if fn_item.st_body is None:
                # trait method declaration without body: spec goes before ';'
                if tgt and tgt.ret:
                    self._ret_edit(src, fn_item, tgt.ret, edits)
                if tgt and tgt.spec:
                    edits.append((fn_item.end - 1, fn_item.end - 1, '\n' + tgt.spec + '\n'))
                return
            a, b = fn_item.st_body
            st = src.st
            if tgt and tgt.ret:
                self._ret_edit(src, fn_item, tgt.ret, edits)
            if blk.trait_decl_only:
                # R12: the default body of a trait method is not emitted with the trait: the method becomes a
                # declaration `fn sig <spec>;`.  The unit emits the same default text (extracted, `//@ bare`) inside the
                # impl(s) it instantiates, which is what an impl that does not override the method inherits.
                edits.append((st[a].start, st[b].end, '\n' + ((tgt.spec + '\n') if tgt and tgt.spec else '') + ';'))
                self.rewrites.append('R12 %s:%d default body of trait fn %s not emitted with the trait (declaration only)'
                                     % (blk.relpath, src.line_of(fn_item.kw_start), fn_item.name))
                return
            if tgt and tgt.spec:
                edits.append((st[a].start, st[a].start, '\n' + tgt.spec + '\n'))
            if blk.decl_only:
                # declaration only: attribute in front, body dropped; nothing inside the body is addressed
                edits.append((fn_item.kw_start, fn_item.kw_start, '#[verifier::external_body]\n'))
                edits.append((st[a].start, st[b].end, '{ unimplemented!() }'))
                self.rewrites.append('D %s fn %s: declared external_body with the contract proved in the unit that includes the same text' % (blk.relpath, fn_item.name))
                return
            head = ''
            if blk.head_all and not (tgt and tgt.omit):
                # a head-all text that speaks of `self` is not put into an associated fn without receiver (a helper such
                # as `fn always_fits(a: &T, b: &T) -> bool` added to the impl later): it would not even resolve
                sig_text = text[fn_item.kw_start:st[a].start]
                has_receiver = re.search(r'\(\s*(?:&\s*(?:\'\w+\s+)?(?:mut\s+)?|mut\s+)?self\b', sig_text) is not None
                if has_receiver or not re.search(r'\bself\b', blk.head_all):
                    head += '\n' + blk.head_all + '\n'
                else:
                    self.rewrites.append('H %s fn %s has no receiver: head-all text (mentions self) not spliced' % (blk.relpath, fn_item.name))
            if tgt and tgt.head:
                head += '\n' + tgt.head + '\n'
            if canary and (tgt is None or tgt.canary):
                head += '\nproof { assert(false); } // RBVERIF_CANARY\n'
                self.canaries += 1
            if head:
                edits.append((st[a].end, st[a].end, head))
            if tgt and tgt.tail:
                # last statement(s) of the body; only meaningful for a fn whose body does not end in a value
                # expression (otherwise Verus rejects the file -> UNDECIDED, never a silent change)
                edits.append((st[b].start, st[b].start, '\n' + tgt.tail + '\n'))
            if blk.let_chain:
                self._let_chain_edits(src, blk, fn_item, edits)
            if tgt and tgt.tfe_tail is not None:
                try:
                    self._try_for_each_edits(src, blk, fn_item, tgt, edits)
                except AnchorLost as e_:
                    if ('tfe_tail',) not in tgt.optional:
                        raise
                    self.dropped.append('O %s fn %s: %s -- optional rewrite skipped' % (blk.relpath, fn_item.name, e_))
            # loops, closures, R1, R2 inside the body
            k = a + 1
            loop_no = 0
            enum_tail_edits = []
            seen_loops = set()
            closure_no = 0
            seen_closures = set()
            tfe_no = 0
            seen_tfe = set()
            while k < b:
                t = st[k]
                if t.kind == 'ident' and t.text in LOOP_KW and not (t.text == 'for' and st[k + 1].text == '<'):
                    loop_no += 1
                    # find the '{' opening the loop body
                    j = k + 1
                    depth = 0
                    if t.text == 'for':
                        # the pattern of a `for` may contain braces (`for Positioned { element, pos } in v`): the body
                        # opens at the first '{' AFTER the `in` keyword at nesting depth 0
                        d3 = 0
                        q = k + 1
                        while q < b:
                            if st[q].kind == 'punct' and st[q].text in '([{':
                                d3 += 1
                            elif st[q].kind == 'punct' and st[q].text in ')]}':
                                d3 -= 1
                            elif d3 == 0 and st[q].kind == 'ident' and st[q].text == 'in':
                                j = q + 1
                                break
                            q += 1
                    while True:
                        tt = st[j]
                        if tt.kind == 'punct':
                            if tt.text in '([':
                                depth += 1
                            elif tt.text in ')]':
                                depth -= 1
                            elif tt.text == '{' and depth == 0:
                                break
                        j += 1
                    header = text[t.start:st[j].start]
                    if blk.enum_to_counter and t.text == 'for' and re.search(r'\.\s*enumerate\s*\(\s*\)\s*$', header):
                        # locate `in` at depth 0
                        kin_, d4 = None, 0
                        for q in range(k + 1, j):
                            if st[q].kind == 'punct' and st[q].text in '([{':
                                d4 += 1
                            elif st[q].kind == 'punct' and st[q].text in ')]}':
                                d4 -= 1
                            elif d4 == 0 and st[q].kind == 'ident' and st[q].text == 'in':
                                kin_ = q
                                break
                        ok_ = (kin_ is not None and st[k + 1].text == '(' and st[kin_ - 1].text == ')' and st[k + 2].kind == 'ident'
                               and st[k + 3].text == ',' and match_close(st, k + 1) == kin_ - 1
                               and [x.text for x in st[j - 4:j]] == ['.', 'enumerate', '(', ')'])
                        jc_ = match_close(st, j)
                        if ok_ and any(x.kind == 'ident' and x.text == 'continue' for x in st[j + 1:jc_]):
                            raise AnchorLost('R14: the body of the enumerate loop #%d of fn %s contains `continue` (%s)' % (loop_no, tgt.name if tgt else '?', blk.relpath))
                        if ok_:
                            idx_name = st[k + 2].text
                            cnt = '__rbv_enum_%d' % loop_no
                            pat_text = text[st[k + 4].start:st[kin_ - 2].end]
                            edits.append((t.start, t.start, 'let mut %s: usize = 0;\n' % cnt))
                            edits.append((st[k + 1].start, st[kin_ - 1].end, pat_text))
                            cut_from = j - 4
                            if [x.text for x in st[j - 8:j - 4]] == ['.', 'into_iter', '(', ')']:
                                cut_from = j - 8
                            edits.append((st[cut_from].start, st[j - 1].end, ''))
                            edits.append((st[j].end, st[j].end, ' let %s = %s;' % (idx_name, cnt)))
                            enum_tail_edits.append((st[jc_].start, st[jc_].start, ' %s += 1; ' % cnt))
                            self.rewrites.append('R14 %s:%d for (%s, ..) in ...enumerate() written with the explicit counter %s'
                                                 % (blk.relpath, src.line_of(t.start), idx_name, cnt))
                    ikey = _loop_match(tgt.loop_iters, loop_no, header) if tgt else None
                    if ikey is not None:
                        # R7: name the Verus ghost iterator of a `for` loop: `for p in e` -> `for p in NAME: e`
                        # (ghost-only label, erased by Verus; needed to state invariants about the position)
                        kin = None
                        if t.text == 'for':
                            d2 = 0
                            for q in range(k + 1, j):
                                if st[q].kind == 'punct' and st[q].text in '([{':
                                    d2 += 1
                                elif st[q].kind == 'punct' and st[q].text in ')]}':
                                    d2 -= 1
                                elif d2 == 0 and st[q].kind == 'ident' and st[q].text == 'in':
                                    kin = q
                                    break
                        if kin is None:
                            raise AnchorLost('loop #%d of fn %s is not a `for .. in` loop (iter= given) in %s' % (loop_no, tgt.name, blk.relpath))
                        edits.append((st[kin].end, st[kin].end, ' %s:' % tgt.loop_iters[ikey]))
                        self.rewrites.append('R7 %s:%d for-loop ghost iterator named %s' % (blk.relpath, src.line_of(t.start), tgt.loop_iters[ikey]))
                    lkey = _loop_match(tgt.loops, loop_no, header) if tgt else None
                    if lkey is not None:
                        edits.append((st[j].start, st[j].start, '\n' + tgt.loops[lkey] + '\n'))
                        seen_loops.add(lkey)
                    if tgt and tgt.loop_parts:
                        jc = match_close(st, j)
                        for (part_, pkey_), ptext_ in tgt.loop_parts.items():
                            if not (pkey_ == loop_no or (isinstance(pkey_, str) and pkey_ in header)):
                                continue
                            seen_loops.add(('part', part_, pkey_))
                            if part_ == 'head':
                                edits.append((st[j].end, st[j].end, '\n' + ptext_ + '\n'))
                            elif part_ == 'tail':
                                edits.append((st[jc].start, st[jc].start, '\n' + ptext_ + '\n'))
                            elif part_ == 'after':
                                edits.append((st[jc].end, st[jc].end, '\n' + ptext_ + '\n'))
                            else:
                                edits.append((t.start, t.start, '\n' + ptext_ + '\n'))
                    if canary and (tgt is None or tgt.canary):
                        edits.append((st[j].end, st[j].end, '\nproof { assert(false); } // RBVERIF_CANARY\n'))
                        self.canaries += 1
                elif (t.kind == 'ident' and t.text == 'if' and ((tgt and tgt.let_chains) or blk.let_chains_all)):
                    # R16: let-chain `if` without else -> nested ifs (the tokens in between are scanned as usual afterwards)
                    j = k + 1
                    depth = 0
                    splits, has_let = [], False
                    while j < b:
                        tt = st[j]
                        if tt.kind == 'punct' and tt.text in '([':
                            depth += 1
                        elif tt.kind == 'punct' and tt.text in ')]':
                            depth -= 1
                        elif tt.kind == 'punct' and tt.text == '{' and depth == 0:
                            break
                        elif depth == 0 and tt.kind == 'ident' and tt.text == 'let':
                            has_let = True
                        elif (depth == 0 and tt.kind == 'punct' and tt.text == '&' and st[j + 1].text == '&' and st[j + 1].start == tt.end
                              and (st[j - 1].kind in ('ident', 'num', 'str', 'char') or st[j - 1].text in (')', ']'))
                              and st[j - 1].text not in ('return', 'in', 'if', 'let', 'mut')):
                            splits.append(j)
                            j += 1
                        j += 1
                    if has_let and splits and j < b:
                        jc = match_close(st, j)
                        if jc + 1 < len(st) and st[jc + 1].text == 'else':
                            raise AnchorLost('R16: the let-chain `if` at %s:%d has an else branch' % (blk.relpath, src.line_of(t.start)))
                        for p_ in splits:
                            edits.append((st[p_].start, st[p_ + 1].end, '{ if '))
                        edits.append((st[jc].end, st[jc].end, ' }' * len(splits)))
                        self.rewrites.append('R16 %s:%d let-chain `if` (no else, %d conjuncts) written as nested ifs' % (blk.relpath, src.line_of(t.start), len(splits) + 1))
                elif (t.text == '|' and t.kind == 'punct' and st[k - 1].text in ('(', ',', '=', 'move', 'return')
                      and not (st[k - 1].text == '=' and st[k - 2].text in ('=', '!', '<', '>', '|'))):
                    # a closure expression `|params| body` / `|| body` in argument or initializer position.
                    # A contract for it (Verus: `|params| -> (r: T) requires .. ensures .. { body }`) is spliced
                    # between the parameter list and the body; a body that is a bare expression is wrapped in
                    # braces.  Nothing of the closure's own tokens is changed.
                    closure_no += 1
                    if st[k + 1].text == '|' and st[k + 1].start == t.end:
                        pe = k + 1
                    else:
                        pe = k + 1
                        depth = 0
                        while not (st[pe].text == '|' and depth == 0):
                            if st[pe].text in '([<':
                                depth += 1
                            elif st[pe].text in ')]>':
                                depth -= 1
                            pe += 1
                    ctext = None
                    chdr = ''.join(text[st[k].start:st[pe].end].split())
                    ckey = None
                    if tgt:
                        if closure_no in tgt.closures:
                            ckey = closure_no
                        else:
                            for key_ in tgt.closures:
                                if isinstance(key_, str) and key_.startswith('*') and ''.join(key_[1:].split()) == chdr:
                                    ckey = key_
                                elif isinstance(key_, str) and ''.join(key_.split()) == chdr:
                                    if key_ in seen_closures:
                                        raise AnchorLost('closure header %s occurs more than once in fn %s (%s)' % (key_, tgt.name, blk.relpath))
                                    ckey = key_
                    if ckey is not None:
                        seen_closures.add(ckey)
                        ctext = tgt.closures[ckey]
                        if '$body' in ctext:
                            # the closure's own body expression, verbatim (block body: the text between its braces)
                            if st[pe + 1].text == '{':
                                bq = match_close(st, pe + 1)
                                btext = text[st[pe + 1].end:st[bq].start]
                            else:
                                bq = pe + 1
                                bdepth = 0
                                while True:
                                    tb = st[bq]
                                    if tb.kind == 'punct':
                                        if tb.text in '([{':
                                            bdepth += 1
                                        elif tb.text in ')]}':
                                            if bdepth == 0:
                                                break
                                            bdepth -= 1
                                        elif tb.text in ',;' and bdepth == 0:
                                            break
                                    bq += 1
                                btext = text[st[pe + 1].start:st[bq - 1].end]
                            ctext = ctext.replace('$body', ' '.join(btext.split()))
                    if tgt and chdr in tgt.map_to_match:
                        # R13: RECV.map(|p| body)  ->  match RECV { Ok(p) => Ok(body), Err(e) => Err(e) }
                        if not (st[k - 1].text == '(' and st[k - 2].text == 'map' and st[k - 3].text == '.'):
                            raise AnchorLost('closure %s of fn %s is not the argument of `.map(`' % (chdr, tgt.name))
                        kc = match_close(st, k - 1)
                        r0 = k - 4
                        rdepth = 0
                        while r0 > a:
                            tr = st[r0]
                            if tr.kind == 'punct' and tr.text in ')]}':
                                rdepth += 1
                            elif tr.kind == 'punct' and tr.text in '([{':
                                if rdepth == 0:
                                    break
                                rdepth -= 1
                            elif rdepth == 0 and (tr.text in (';', ',', '=', '=>', 'return')):
                                break
                            r0 -= 1
                        r0 += 1
                        last = kc - 1
                        if st[last].text == ',':
                            last -= 1
                        ptext = text[st[k].end:st[pe].start].strip()
                        edits.append((st[r0].start, st[r0].start, 'match '))
                        edits.append((st[k - 3].start, st[pe].end, ' { Ok(%s) => Ok(' % ptext))
                        edits.append((st[last].end, st[kc].end, '), Err(__rbv_e) => Err(__rbv_e) }'))
                        self.rewrites.append('R13 %s:%d closure #%d of fn %s: `RECV.map(|%s| body)` written out as `match RECV { Ok(%s) => Ok(body), Err(e) => Err(e) }` (definition of Result::map)'
                                             % (blk.relpath, src.line_of(t.start), closure_no, tgt.name, ptext, ptext))
                        tgt.map_to_match.discard(chdr)
                        k = pe + 1
                        continue
                    tfe_close = None
                    tkey = None
                    if tgt and closure_no in tgt.tfe:
                        tkey = closure_no
                    elif tgt and chdr in tgt.tfe and st[k - 2].text == 'try_for_each':
                        tkey = chdr
                    if tkey is not None:
                        # R15: RECV.try_for_each(|p| body) written out as a loop (see the directive); a header key applies to
                        # every try_for_each of the fn whose closure reads like that
                        if not (st[k - 1].text == '(' and st[k - 2].text == 'try_for_each' and st[k - 3].text == '.'):
                            raise AnchorLost('closure %s of fn %s is not the argument of `.try_for_each(`' % (chdr, tgt.name))
                        seen_tfe.add(tkey)
                        tfe_no += 1
                        kc = match_close(st, k - 1)
                        r0 = k - 4
                        rdepth = 0
                        while r0 > a:
                            tr = st[r0]
                            if tr.kind == 'punct' and tr.text in ')]}':
                                rdepth += 1
                            elif tr.kind == 'punct' and tr.text in '([{':
                                if rdepth == 0:
                                    break
                                rdepth -= 1
                            elif rdepth == 0 and (tr.text in (';', ',', '=', '=>', 'return')):
                                break
                            r0 -= 1
                        r0 += 1
                        last = kc - 1
                        if st[last].text == ',':
                            last -= 1
                        ftext, itname = tgt.tfe[tkey]
                        nr, nv, nf, nx, ns = ('__rbv_tfe_%s_%d' % (c_, tfe_no) for c_ in 'rvfxs')
                        itname = itname or '__rbv_tfe_it_%d' % tfe_no
                        into_iter = [x.text for x in st[k - 7:k - 3]] == ['.', 'into_iter', '(', ')'] and k - 7 > r0
                        edits.append((st[r0].start, st[r0].start, '{ let mut %s = Ok(()); let %s = ' % (nr, nv)))
                        if into_iter:
                            edits.append((st[k - 7].start, st[k - 1].end, '; let ghost %s = %s@; let %s = rbv_tfe_typed_vec(&%s, ' % (ns, nv, nf, nv)))
                        else:
                            edits.append((st[k - 3].start, st[k - 1].end, '; let ghost %s = %s.remaining(); let %s = rbv_tfe_typed_iter(&%s, ' % (ns, nv, nf, nv)))
                        for ph_, nm_ in (('$r', nr), ('$v', nv), ('$f', nf), ('$s', ns)):
                            ftext = ftext.replace(ph_, nm_)
                        # optional sections of the field text: a line `@before` / `@after` starts ghost text that is put right
                        # before the generated loop / between its closing brace and the result expression
                        sect_ = {'spec': [], 'before': [], 'after': []}
                        cur_ = 'spec'
                        for ln_ in ftext.split('\n'):
                            if ln_.strip() in ('@before', '@after'):
                                cur_ = ln_.strip()[1:]
                            else:
                                sect_[cur_].append(ln_)
                        ftext, fbefore, fafter = ('\n'.join(sect_[x_]) for x_ in ('spec', 'before', 'after'))
                        cny = ''
                        if canary and tgt.canary:
                            cny = '\nproof { assert(false); } // RBVERIF_CANARY\n'
                            self.canaries += 1
                        tfe_close = (st[last].end, st[kc].end,
                                     ');\n%s\nfor %s in %s: %s\n%s\n{%s match %s(%s) { Ok(()) => {} Err(__rbv_tfe_e) => { %s = Err(__rbv_tfe_e); break; } } }\n%s\n%s }'
                                     % (fbefore, nx, itname, nv, ftext, cny, nf, nx, nr, fafter, nr))
                        self.rewrites.append('R15 %s:%d closure #%d of fn %s: `RECV.try_for_each(%s body)` written out as a loop that stops at the first Err (definition of Iterator::try_for_each)%s'
                                             % (blk.relpath, src.line_of(t.start), closure_no, tgt.name, chdr, '; trailing .into_iter() of RECV dropped' if into_iter else ''))
                    # R8 (opt-in, `//@ closure-params-to-let`): a closure parameter that is a destructuring pattern,
                    # `|S { f, .. }| body`, is moved into a `let` at the head of the body:
                    # `|__rbv_pN| { let S { f, .. } = __rbv_pN; body }` -- the definition of a pattern parameter
                    # (Rust reference, closure expressions: parameters are irrefutable patterns bound like `let`).
                    # Verus' front end only accepts plain variables as closure parameters.
                    lets = ''
                    if ((tgt and tgt.params_to_let) or blk.params_to_let_all) and pe > k + 1:
                        groups, cur, depth = [], [], 0
                        for q in range(k + 1, pe):
                            tq = st[q]
                            if tq.kind == 'punct' and tq.text in '([{<':
                                depth += 1
                            elif tq.kind == 'punct' and tq.text in ')]}>':
                                depth -= 1
                            if tq.kind == 'punct' and tq.text == ',' and depth == 0:
                                groups.append(cur)
                                cur = []
                            else:
                                cur.append(q)
                        if cur:
                            groups.append(cur)
                        for gi, g in enumerate(groups):
                            # pattern = tokens before a depth-0 ':' (type ascription), if any
                            depth, pat = 0, g
                            for n_, q in enumerate(g):
                                tq = st[q]
                                if tq.kind == 'punct' and tq.text in '([{<':
                                    depth += 1
                                elif tq.kind == 'punct' and tq.text in ')]}>':
                                    depth -= 1
                                elif tq.kind == 'punct' and tq.text == ':' and depth == 0 and not (
                                        st[q + 1].text == ':' or st[q - 1].text == ':'):
                                    pat = g[:n_]
                                    break
                            if len(pat) == 1 and st[pat[0]].text == '_':
                                # the wildcard parameter `|_|`: give it a (never used) name; no `let` is needed
                                tmp = '__rbv_p%d_%d' % (closure_no, gi + 1)
                                edits.append((st[pat[0]].start, st[pat[0]].end, tmp))
                                self.rewrites.append('R8 %s:%d closure #%d of fn %s: wildcard parameter `_` named `%s`'
                                                     % (blk.relpath, src.line_of(t.start), closure_no, fn_item.name, tmp))
                                continue
                            simple = (len(pat) == 1 and st[pat[0]].kind == 'ident') or (
                                len(pat) == 2 and st[pat[0]].text == 'mut' and st[pat[1]].kind == 'ident')
                            if simple or not pat:
                                continue
                            tmp = '__rbv_p%d_%d' % (closure_no, gi + 1)
                            ptext = text[st[pat[0]].start:st[pat[-1]].end]
                            edits.append((st[pat[0]].start, st[pat[-1]].end, tmp))
                            lets += ' let %s = %s;' % (ptext, tmp)
                            self.rewrites.append('R8 %s:%d closure #%d of fn %s: pattern parameter `%s` -> `%s` + `let %s = %s;` at the head of the body'
                                                 % (blk.relpath, src.line_of(t.start), closure_no, fn_item.name, ' '.join(ptext.split()), tmp, ' '.join(ptext.split()), tmp))
                    if ctext is not None or lets:
                        if ctext is not None:
                            self.rewrites.append('C %s:%d closure #%d of fn %s: contract spliced between parameters and body%s'
                                                 % (blk.relpath, src.line_of(t.start), closure_no, tgt.name,
                                                    '' if st[pe + 1].text == '{' else ' (body expression wrapped in braces)'))
                        pre = (' ' + ctext + ' ') if ctext is not None else ''
                        if st[pe + 1].text == '{':
                            if pre:
                                edits.append((st[pe].end, st[pe].end, pre))
                            if lets:
                                edits.append((st[pe + 1].end, st[pe + 1].end, lets))
                        else:
                            # body = expression up to the ',' or closing bracket of the enclosing call
                            q = pe + 1
                            depth = 0
                            while True:
                                tq = st[q]
                                if tq.kind == 'punct':
                                    if tq.text in '([{':
                                        depth += 1
                                    elif tq.text in ')]}':
                                        if depth == 0:
                                            break
                                        depth -= 1
                                    elif tq.text in ',;' and depth == 0:
                                        break
                                q += 1
                            edits.append((st[pe].end, st[pe].end, (pre if pre else ' ') + '{' + lets))
                            edits.append((st[q - 1].end, st[q - 1].end, ' }'))
                    if tfe_close is not None:
                        edits.append(tfe_close)
                    k = pe + 1
                    continue
                elif t.kind == 'ident' and k + 2 < b and st[k + 1].text == '!' and st[k + 2].text in ('(', '[', '{'):
                    if t.text in DEBUG_MACROS:
                        kc = match_close(st, k + 2)
                        ke = _stmt_end(st, kc)
                        edits.append((t.start, st[ke].end, '/* R1: %s dropped */' % t.text))
                        self.dropped.append('R1 %s:%d %s' % (blk.relpath, src.line_of(t.start), ' '.join(text[t.start:st[kc].end].split())))
                        k = ke + 1
                        continue
                    if t.text in PANIC_MACROS:
                        kc = match_close(st, k + 2)
                        if (st[k - 1].text == '|' and st[k - 2].text == '|' and st[k - 2].end == st[k - 1].start
                                and st[k - 3].text in ('(', ',')):
                            # the macro is the whole body of a parameterless closure argument `|| panic!(..)`:
                            # a closure has no contract of its own, so "the panic is unreachable" is stated as
                            # the closure's precondition `false` (the caller must then prove it is never called)
                            edits.append((t.start, st[kc].end, 'requires false { vstd::pervasive::unreached() }'))
                            self.rewrites.append('R2 %s:%d || %s! -> || requires false { unreached() }' % (blk.relpath, src.line_of(t.start), t.text))
                        elif blk.diverge:
                            stmt_pos = kc + 1 < len(st) and st[kc + 1].text == ';'
                            edits.append((t.start, st[kc].end, 'rbv_diverge::<()>()' if stmt_pos else 'rbv_diverge()'))
                            self.rewrites.append('R2b %s:%d %s! -> rbv_diverge() (does not return)' % (blk.relpath, src.line_of(t.start), t.text))
                        else:
                            # in statement position (`panic!(..);`) the type parameter cannot be inferred: say `()`
                            stmt_pos = kc + 1 < len(st) and st[kc + 1].text == ';'
                            # `panic!(..);` as the LAST statement of a block that must yield a value (`_ => { panic!(..); }` in a
                            # match of type T): `unreached::<()>();` would give the block the type (); `return unreached();` has the
                            # type `!` like the panic (its type parameter is the return type of the enclosing fn / closure)
                            last_stmt = stmt_pos and kc + 2 < len(st) and st[kc + 2].text == '}'
                            edits.append((t.start, st[kc].end,
                                          'return vstd::pervasive::unreached()' if last_stmt else
                                          'vstd::pervasive::unreached::<()>()' if stmt_pos else 'vstd::pervasive::unreached()'))
                            self.rewrites.append('R2 %s:%d %s! -> unreached()' % (blk.relpath, src.line_of(t.start), t.text))
                        k = kc + 1
                        continue
                elif (blk.diverge and t.kind == 'ident' and t.text == 'expect' and st[k - 1].text == '.'
                      and k + 1 < b and st[k + 1].text == '('):
                    # R2b, method form: `x.expect("msg")` panics like `panic!`; under `panics-diverge` it becomes
                    # `x.rbv_expect()` (the unit declares it: returns only if x is Some/Ok, with the payload) instead of
                    # vstd's Option::expect, whose precondition demands a proof that the panic is unreachable
                    kc = match_close(st, k + 1)
                    edits.append((t.start, st[kc].end, 'rbv_expect()'))
                    self.rewrites.append('R2b %s:%d .expect(..) -> .rbv_expect() (returns only with the payload)' % (blk.relpath, src.line_of(t.start)))
                    k = kc + 1
                    continue
                k += 1
            edits.extend(enum_tail_edits)   # after the unit's own loop-tail texts (same offset: emitted in this order)
            for ctor_full in blk.eta:
                # `//@ eta Path::f`                       plain eta expansion
                # `//@ eta Path::f -> (r: T) ensures ..`   with a full closure contract written in the unit
                # `//@ eta Path::Ctor -> Type`             with the contract `ensures eta_r == Path::Ctor(eta_x)` (the caller's proof
                #                                          depends on the value, e.g. Option::map(Ctor)); Type is the constructed type
                ctor, _, rest_ = ctor_full.partition(' ')
                rest_ = rest_.strip()
                econtract, ctor_ty = '', ''
                if rest_.startswith('->') and rest_[2:].strip().startswith('('):
                    econtract = rest_
                elif rest_.startswith('->'):
                    ctor_ty = rest_[2:].strip()
                elif rest_:
                    econtract = rest_
                found = 0
                for mo in re.finditer(r'\(\s*(%s)\s*\)' % re.escape(ctor), text[st[a].end:st[b].start]):
                    s0 = st[a].end + mo.start(1)
                    e0 = st[a].end + mo.end(1)
                    if econtract:
                        edits.append((s0, e0, '|eta_x| %s { %s(eta_x) }' % (econtract, ctor)))
                    elif ctor_ty:
                        edits.append((s0, e0, '|eta_x| -> (eta_r: %s) ensures eta_r == %s(eta_x), { %s(eta_x) }' % (ctor_ty, ctor, ctor)))
                    else:
                        edits.append((s0, e0, '|eta_x| %s(eta_x)' % ctor))
                    self.rewrites.append('R9 %s:%d constructor %s passed as a function value eta-expanded' % (blk.relpath, src.line_of(s0), ctor))
                    found += 1
                blk.eta_found[ctor_full] = blk.eta_found.get(ctor_full, 0) + found
            if tgt:
                for n in tgt.map_to_match:
                    if ('map-to-match', n) in tgt.optional:
                        continue
                    raise AnchorLost('fn %s has no `.map(%s ..)` in %s' % (tgt.name, n, blk.relpath))
                for n in tgt.tfe:
                    if n not in seen_tfe and ('tfe', n) not in tgt.optional:
                        raise AnchorLost('fn %s has no `.try_for_each(%s ..)` in %s' % (tgt.name, n, blk.relpath))
                for n in tgt.closures:
                    if n not in seen_closures and ('closure', n) not in tgt.optional:
                        raise AnchorLost('fn %s has no closure #%s (found %d) in %s' % (tgt.name, n, closure_no, blk.relpath))
                for n in tgt.loops:
                    if n not in seen_loops and ('loop', n) not in tgt.optional:
                        raise AnchorLost('fn %s has no loop #%s (found %d) in %s' % (tgt.name, n, loop_no, blk.relpath))
                for (part_, pkey_) in tgt.loop_parts:
                    if ('part', part_, pkey_) not in seen_loops and ('loop-part', part_, pkey_) not in tgt.optional:
                        raise AnchorLost('fn %s has no loop #%s (found %d) for loop-%s in %s' % (tgt.name, pkey_, loop_no, part_, blk.relpath))
                lo, hi = st[a].end, st[b].start
                for stmt, htext, after in tgt.hints:
                    body = text[lo:hi]
                    # `#N <text>`: the N-th of exactly-counted occurrences, written `#N/M <text>` (M = how many there must be)
                    nth, want = 1, 1
                    mo = re.match(r'#(\d+)/(\d+)\s+(.*)$', stmt)
                    if mo:
                        nth, want, stmt = int(mo.group(1)), int(mo.group(2)), mo.group(3)
                    cnt = body.count(stmt)
                    if cnt == 0 and ('hint', stmt) in tgt.optional:
                        continue
                    if stmt.startswith('#LAST '):
                        stmt = stmt[6:]
                        cnt = body.count(stmt)
                        if cnt < 1:
                            raise AnchorLost('hint statement %r not found in fn %s (%s)' % (stmt, tgt.name, blk.relpath))
                        nth = want = cnt
                    if cnt != want or not (1 <= nth <= want):
                        raise AnchorLost('hint statement %r occurs %d times in fn %s (%s), expected %d' % (stmt, cnt, tgt.name, blk.relpath, want))
                    idx = -1
                    for _ in range(nth):
                        idx = body.index(stmt, idx + 1)
                    off = lo + idx + (len(stmt) if after else 0)
                    edits.append((off, off, ('\n' if after else '') + htext + '\n'))

        def strip_attrs(it):
            if blk.keep_attrs:
                return
            if it.kw_start > it.start:
                edits.append((it.start, it.kw_start, ''))

        # doc comments inside are harmless (comments); attributes on the item are dropped (R4)
        if blk.as_spec and item.kind != 'fn':
            raise UnitSyntax('line %d: as-spec needs a fn selector' % blk.vu_line)
        if item.kind == 'fn' and blk.as_spec:
            if item.st_body is None:
                raise AnchorLost('fn %s has no body to make a spec twin of (%s)' % (item.name, blk.relpath))
            st = src.st
            i0 = next(i for i, t in enumerate(st) if t.start >= item.kw_start and t.text == 'fn')
            edits.append((item.start, st[i0 + 1].end, 'pub closed spec fn %s' % blk.as_spec))
            self.rewrites.append('R10 %s:%d fn %s emitted as spec twin `%s` (body verbatim)'
                                 % (blk.relpath, src.line_of(item.start), item.name, blk.as_spec))
        elif item.kind == 'fn':
            strip_attrs(item)
            fn_edits(item, blk.fns.get(item.name))
            self.fn_origin[item.name] = (blk.relpath, self._path(parents, item))
        elif item.kind in ('impl', 'trait', 'mod'):
            # (a `mod` is treated like an impl: its fns can be addressed with `//@ fn NAME`)
            strip_attrs(item)
            if blk.sized:
                if item.kind != 'trait':
                    raise UnitSyntax('line %d: supertrait-sized needs a trait selector' % blk.vu_line)
                self._sized_edits(src, blk, item, edits)
            if blk.instantiate:
                if item.kind != 'impl':
                    raise UnitSyntax('line %d: instantiate needs an impl selector' % blk.vu_line)
                self._instantiate_edits(src, blk, item, edits)
            for ch in src.children(item):
                if ch.kind == 'fn':
                    tgt = blk.fns.get(ch.name)
                    if tgt is not None and tgt.omit:
                        edits.append((ch.start, ch.end, '/* R6: fn %s omitted */' % ch.name))
                        self.dropped.append('R6 %s fn %s of %s' % (blk.relpath, ch.name, item.name))
                        continue
                    if ch.kw_start > ch.start and not blk.keep_attrs:
                        edits.append((ch.start, ch.kw_start, ''))
                    fn_edits(ch, tgt)
                    self.fn_origin[ch.name] = (blk.relpath, self._path(parents + [item], ch))
            for nm, tgt in blk.fns.items():
                if not any(ch.kind == 'fn' and ch.name == nm for ch in src.children(item)):
                    if tgt.opt_member:
                        self.dropped.append('O %s optional member fn %s absent from %s, its splices skipped'
                                            % (blk.relpath, nm, item.name))
                        continue
                    raise AnchorLost('no fn %s in %s of %s' % (nm, item.name, blk.relpath))
            if blk.members:
                close = src.st[item.st_body[1]].start
                edits.append((close, close, '\n' + '\n'.join(blk.members) + '\n'))
        else:
            strip_attrs(item)
            if item.kind in ('struct', 'enum') and not blk.keep_attrs:
                # field/variant attributes
                a, b = item.st_body if item.st_body else (None, None)
                if a is not None:
                    k = a + 1
                    st = src.st
                    while k < b:
                        if st[k].text == '#' and st[k + 1].text == '[':
                            kc = match_close(st, k + 1)
                            edits.append((st[k].start, st[kc].end, ''))
                            k = kc + 1
                        else:
                            k += 1
        for ctor in blk.eta:
            if not blk.eta_found.get(ctor) and not blk.decl_only and ctor not in blk.eta_optional:   # a declaration (include-external) has no body to rewrite
                raise AnchorLost('no `(%s)` argument in %s of %s' % (ctor, item.name or item.kind, blk.relpath))
        # stable sort on the offsets only: edits at the same offset keep their insertion order
        # (ret-naming ')' before the spec text of a body-less trait method)
        edits.sort(key=lambda e: (e[0], e[1]))
        for (s1, e1, _), (s2, e2, _) in zip(edits, edits[1:]):
            if s2 < e1:
                raise UnitSyntax('overlapping edits in %s' % blk.relpath)
        # wrapper for a fn inside impl(s)
        orig = text[item.start:item.end]
        self.extracted.append({'file': blk.relpath, 'item': self._path(parents, item),
                               'sha256': hashlib.sha256(orig.encode()).hexdigest(),
                               'lines': [src.line_of(item.start), src.line_of(item.end)]})
        if blk.prefix:
            self.pieces.append(Piece(blk.prefix + '\n', self.unit_path, blk.vu_line))
        wrap = []
        if item.kind == 'fn' and parents and not blk.bare:
            for p in parents:
                if p.kind in ('impl', 'trait'):
                    wrap.append(p.header)
        for w in wrap:
            self.pieces.append(Piece(w + ' {\n', blk.relpath, None))
        pos = item.start
        for s1, e1, new in edits:
            if s1 > pos:
                self.pieces.append(Piece(text[pos:s1], blk.relpath, src.line_of(pos)))
            if new:
                self.pieces.append(Piece(new, self.unit_path, blk.vu_line))
            pos = max(pos, e1)
        if pos < item.end:
            self.pieces.append(Piece(text[pos:item.end], blk.relpath, src.line_of(pos)))
        self.pieces.append(Piece('\n', blk.relpath, None))
        for w in wrap:
            self.pieces.append(Piece('}\n', blk.relpath, None))

    def _try_for_each_edits(self, src, blk, fn_item, tgt, edits):
        """R18: tail expression `RECV.iter().try_for_each(|PAT| BODY)` -> `for PAT in RECV.iter() { (BODY)?; } Ok(())`"""
        st = src.st
        text = src.text
        a, b = fn_item.st_body
        # the call must close right before the `}` of the fn body
        if st[b - 1].text != ')':
            raise AnchorLost('R18: fn %s does not end in a call (%s)' % (fn_item.name, blk.relpath))
        # find the matching '(' of the last ')'
        depth, k = 0, b - 1
        while k > a:
            tx = st[k].text if st[k].kind == 'punct' else ''
            if tx in (')', ']', '}'):
                depth += 1
            elif tx in ('(', '[', '{'):
                depth -= 1
                if depth == 0:
                    break
            k -= 1
        p_open = k
        if not (st[p_open - 1].text == 'try_for_each' and st[p_open - 2].text == '.' and st[p_open - 3].text == ')'
                and st[p_open - 4].text == '(' and st[p_open - 5].text == 'iter' and st[p_open - 6].text == '.'):
            raise AnchorLost('R18: the tail expression of fn %s is not `RECV.iter().try_for_each(..)` (%s)' % (fn_item.name, blk.relpath))
        # the closure `|PAT| BODY`
        if st[p_open + 1].text != '|':
            raise AnchorLost('R18: try_for_each of fn %s is not given a closure (%s)' % (fn_item.name, blk.relpath))
        q = p_open + 2
        d2 = 0
        while not (st[q].text == '|' and d2 == 0):
            if st[q].kind == 'punct' and st[q].text in '([{':
                d2 += 1
            elif st[q].kind == 'punct' and st[q].text in ')]}':
                d2 -= 1
            q += 1
        pat = text[st[p_open + 2].start:st[q - 1].end] if q > p_open + 2 else '_'
        body_s, body_e = st[q + 1].start, st[b - 2].end
        # the receiver: from the start of the tail expression (after the last `;` at depth 0 of the body, or the body start)
        r0 = a + 1
        d3 = 0
        for j in range(a + 1, p_open - 6):
            tj = st[j]
            if tj.kind == 'punct' and tj.text in '([{':
                d3 += 1
            elif tj.kind == 'punct' and tj.text in ')]}':
                d3 -= 1
                if d3 == 0 and tj.text == '}':
                    r0 = j + 1
            elif d3 == 0 and tj.kind == 'punct' and tj.text == ';':
                r0 = j + 1
        if r0 > p_open - 7:
            raise AnchorLost('R18: no receiver for .iter().try_for_each in fn %s (%s)' % (fn_item.name, blk.relpath))
        nm, ann = tgt.tfe_tail
        recv = text[st[r0].start:st[p_open - 4 + 1].end]          # RECV.iter()
        edits.append((st[r0].start, st[r0].start, 'for %s in %s' % (pat, (nm + ': ') if nm else '')))
        # RECV.iter() stays verbatim; `.try_for_each(|PAT|` is replaced by the annotation and `{ (`
        edits.append((st[p_open - 2].start, st[q].end, '\n' + (ann or '') + '\n{ ('))
        edits.append((st[b - 1].start, st[b - 1].end, ')?; }\nOk(())'))
        self.rewrites.append('R18 %s:%d tail expression `%s.try_for_each(|%s| ..)` of fn %s written as a for loop with `?`'
                             % (blk.relpath, src.line_of(st[r0].start), ' '.join(recv.split()), ' '.join(pat.split()), fn_item.name))

    def _sized_edits(self, src, blk, item, edits):
        """R17: `trait NAME<..> {` -> `trait NAME<..>: Sized {` after checking that the crate has no `dyn NAME` / `NAME<..> + ?Sized`"""
        st = src.st
        i0 = next(i for i, t in enumerate(st) if t.start >= item.kw_start and t.text == 'trait')
        name = st[i0 + 1].text
        crate_dir = os.path.join(self.repo, blk.relpath.split('/')[0])
        pat = re.compile(r'\bdyn\s+(?:\w+::)*%s\b|\b%s\s*(?:<[^;{}]*?>)?\s*\+\s*\?Sized' % (re.escape(name), re.escape(name)))
        for root, _dirs, files in os.walk(crate_dir):
            if os.sep + 'target' in root:
                continue
            for fn in files:
                if fn.endswith('.rs'):
                    try:
                        txt = open(os.path.join(root, fn)).read()
                    except OSError:
                        continue
                    if pat.search(txt):
                        raise AnchorLost('R17: trait %s is used unsized in %s' % (name, os.path.join(root, fn)))
        b_open = item.st_body[0]
        k = i0 + 2
        if st[k].text == '<':
            depth = 0
            while True:
                if st[k].text == '<':
                    depth += 1
                elif st[k].text == '>':
                    depth -= 1
                    if depth == 0:
                        break
                k += 1
            k += 1
        if st[k].text == ':':
            edits.append((st[k].end, st[k].end, ' Sized +'))
        else:
            edits.append((st[k].start, st[k].start, ': Sized '))
        self.rewrites.append('R17 %s:%d trait %s emitted with the supertrait Sized (no `dyn %s` / `?Sized` use in the crate)'
                             % (blk.relpath, src.line_of(item.start), name, name))

    def _let_chain_edits(self, src, blk, fn_item, edits):
        """R16: `if A && B { BODY }` (no else) with a `let` in the chain -> `if A { if B { BODY } }`"""
        st = src.st
        a, b = fn_item.st_body
        k = a + 1
        while k < b:
            t = st[k]
            if not (t.kind == 'ident' and t.text == 'if'):
                k += 1
                continue
            # the condition runs to the first `{` at bracket depth 0
            depth, j = 0, k + 1
            while j < b:
                tx = st[j].text if st[j].kind == 'punct' else ''
                if tx in ('(', '['):
                    depth += 1
                elif tx in (')', ']'):
                    depth -= 1
                elif tx == '{' and depth == 0:
                    break
                j += 1
            if j >= b:
                break
            cond = range(k + 1, j)
            has_let = False
            ands = []
            depth = 0
            for q in cond:
                tq = st[q]
                if tq.kind == 'punct' and tq.text in '([':
                    depth += 1
                elif tq.kind == 'punct' and tq.text in ')]':
                    depth -= 1
                elif depth == 0 and tq.kind == 'ident' and tq.text == 'let':
                    has_let = True
                elif (depth == 0 and tq.kind == 'punct' and tq.text == '&' and q + 1 < j and st[q + 1].text == '&'
                      and st[q + 1].start == tq.end and st[q - 1].text not in ('=', '(', ',', '&', '[', '|', 'let', 'if')
                      and (not ands or ands[-1] != q - 1)):
                    ands.append(q)
            if has_let and ands:
                jc = match_close(st, j)
                if jc + 1 < len(st) and st[jc + 1].kind == 'ident' and st[jc + 1].text == 'else':
                    raise AnchorLost('R16: the let-chain `if` at line %d of %s has an else branch' % (src.line_of(t.start), blk.relpath))
                if st[k - 1].kind == 'ident' and st[k - 1].text == 'else':
                    raise AnchorLost('R16: the let-chain `if` at line %d of %s is an else-if' % (src.line_of(t.start), blk.relpath))
                for q in ands:
                    edits.append((st[q].start, st[q + 1].end, '{ if'))
                edits.append((st[jc].end, st[jc].end, ' }' * len(ands)))
                self.rewrites.append('R16 %s:%d let-chain `if` without else written as %d nested ifs'
                                     % (blk.relpath, src.line_of(t.start), len(ands) + 1))
            k += 1

    def _instantiate_edits(self, src, blk, item, edits):
        """R19: emit a generic impl instantiated at given type arguments (see the `instantiate` directive)"""
        gen, subst, where = blk.instantiate
        st = src.st
        i0 = next(i for i, t in enumerate(st) if t.start >= item.kw_start and t.text == 'impl')
        if item.st_body is None:
            raise AnchorLost('impl without a body cannot be instantiated (%s)' % blk.relpath)
        b_open, b_close = item.st_body
        skip = set()
        # the generics list `<..>` right after `impl`
        if st[i0 + 1].text == '<':
            depth, k = 0, i0 + 1
            while True:
                if st[k].text == '<':
                    depth += 1
                elif st[k].text == '>' and st[k - 1].text != '-':
                    depth -= 1
                    if depth == 0:
                        break
                k += 1
                if k >= b_open:
                    raise AnchorLost('unbalanced generics in impl header (%s)' % blk.relpath)
            declared = [t.text for t in st[i0 + 2:k] if t.kind == 'ident']
            for p in subst:
                if p not in declared:
                    raise AnchorLost('impl header has no type parameter %s to instantiate (%s)' % (p, blk.relpath))
            edits.append((st[i0 + 1].start, st[k].end, '' if gen == '<>' else gen))
            skip.update(range(i0 + 1, k + 1))
        else:
            raise AnchorLost('impl header has no generics to instantiate (%s)' % blk.relpath)
        # the where clause of the header (angle/bracket depth 0)
        w = None
        depth = 0
        for k in range(i0 + 1, b_open):
            if k in skip:
                continue
            tx = st[k].text
            if tx in '<([':
                depth += 1
            elif tx in ')]' or (tx == '>' and st[k - 1].text != '-'):
                depth -= 1
            elif tx == 'where' and depth == 0:
                w = k
                break
        if w is not None:
            edits.append((st[w].start, st[b_open].start, (where + ' ') if where else ''))
            skip.update(range(w, b_open))
        elif where:
            edits.append((st[b_open].start, st[b_open].start, where + ' '))
        # every other occurrence of a substituted parameter (not a field / method name after `.`)
        n = 0
        for k in range(i0 + 1, b_close):
            if k in skip:
                continue
            t = st[k]
            if t.kind == 'ident' and t.text in subst and st[k - 1].text != '.':
                edits.append((t.start, t.end, subst[t.text]))
                n += 1
        self.rewrites.append('R19 %s:%d impl `%s` instantiated at %s (generics %s, %s; %d occurrences substituted)'
                             % (blk.relpath, src.line_of(item.start), ' '.join(item.header.split()),
                                ', '.join('%s = %s' % kv for kv in sorted(subst.items())), gen, where or 'no where clause', n))

    def _path(self, parents, item):
        names = [p.name for p in parents if p.name] + [item.name or item.kind]
        return ' :: '.join(names)

    def _param_names(self, src, fn_item):
        """identifiers of the parameters of fn_item after the receiver, in order (simple `name: T` / `mut name: T`
        parameters; a pattern parameter yields '_')"""
        st = src.st
        i0 = next(i for i, t in enumerate(st) if t.start >= fn_item.kw_start and t.text == 'fn')
        k = i0 + 2
        if st[k].text == '<':
            depth = 0
            while True:
                if st[k].text == '<':
                    depth += 1
                elif st[k].text == '>' and not (st[k - 1].text == '-' and st[k - 1].end == st[k].start):
                    depth -= 1
                    if depth == 0:
                        break
                k += 1
            k += 1
        if st[k].text != '(':
            return []
        kc = match_close(st, k)
        groups, cur, depth = [], [], 0
        for q in range(k + 1, kc):
            tq = st[q]
            if tq.kind == 'punct' and tq.text in '([{<':
                depth += 1
            elif tq.kind == 'punct' and tq.text in ')]}>' and not (tq.text == '>' and st[q - 1].text == '-'):
                depth -= 1
            if tq.kind == 'punct' and tq.text == ',' and depth == 0:
                groups.append(cur)
                cur = []
            else:
                cur.append(q)
        if cur:
            groups.append(cur)
        names = []
        for g in groups:
            toks = [st[q].text for q in g]
            if 'self' in toks[:3]:
                continue
            if toks and toks[0] == 'mut':
                toks = toks[1:]
            names.append(toks[0] if len(toks) >= 2 and toks[1] == ':' and re.match(r'^[A-Za-z_]\w*$', toks[0]) else '_')
        return names

    def _impl_trait_edits(self, src, blk, fn_item, edits):
        """R11 (opt-in `//@ impl-trait-to-generic`): `fn f(x: &impl Tr)` -> `fn f<__RbvI1: Tr>(x: &__RbvI1)`: the
        definition of impl-Trait in argument position (Rust reference: an anonymous type parameter).  This Verus
        version does not terminate on a trait method declared with `impl Trait` in argument position."""
        st = src.st
        i0 = next(i for i, t in enumerate(st) if t.start >= fn_item.kw_start and t.text == 'fn')
        end_off = fn_item.body_open if fn_item.body_open is not None else fn_item.end - 1
        name_tok = i0 + 1
        k = name_tok + 1
        # skip existing generics
        has_generics = st[k].text == '<'
        if has_generics:
            depth = 0
            while True:
                if st[k].text == '<':
                    depth += 1
                elif st[k].text == '>' and not (st[k - 1].text == '-' and st[k - 1].end == st[k].start):
                    depth -= 1
                    if depth == 0:
                        break
                k += 1
            k += 1
        if st[k].text != '(':
            return
        kc = match_close(st, k)
        bounds = []
        q = k + 1
        while q < kc:
            if st[q].kind == 'ident' and st[q].text == 'impl':
                # bound = tokens up to the ',' or ')' at this nesting level
                e = q + 1
                depth = 0
                while e < kc:
                    tx = st[e].text
                    if tx in '([<':
                        depth += 1
                    elif tx in ')]>' and not (tx == '>' and st[e - 1].text == '-' and st[e - 1].end == st[e].start):
                        if depth == 0:
                            break
                        depth -= 1
                    elif tx == ',' and depth == 0:
                        break
                    e += 1
                bound = src.text[st[q + 1].start:st[e - 1].end]
                nm = '__RbvI%d' % (len(bounds) + 1)
                bounds.append((nm, bound))
                edits.append((st[q].start, st[e - 1].end, nm))
                q = e
            else:
                q += 1
        if not bounds:
            return
        decl = ', '.join('%s: %s' % b for b in bounds)
        if has_generics:
            edits.append((st[name_tok + 1].end, st[name_tok + 1].end, decl + ', '))
        else:
            edits.append((st[name_tok].end, st[name_tok].end, '<' + decl + '>'))
        self.rewrites.append('R11 %s:%d fn %s: impl-Trait parameter(s) named: %s' % (blk.relpath, src.line_of(fn_item.kw_start), fn_item.name, decl))

    def _ret_edit(self, src, fn_item, name, edits):
        """-> T   becomes   -> (name: T)"""
        st = src.st
        # locate '->' at depth 0 in the signature
        i0 = next(i for i, t in enumerate(st) if t.start >= fn_item.kw_start and t.text == 'fn')
        end_off = fn_item.body_open if fn_item.body_open is not None else fn_item.end - 1
        depth = 0
        adepth = 0   # depth in the generic parameter list `<..>` (an `F: FnOnce(X) -> Y` bound holds an arrow of its own)
        k = i0
        arrow = None
        while st[k].start < end_off:
            t = st[k]
            if t.kind == 'punct':
                is_arrow = t.text == '-' and st[k + 1].text == '>' and st[k + 1].start == t.end
                if t.text in '([':
                    depth += 1
                elif t.text in ')]':
                    depth -= 1
                elif depth == 0 and adepth == 0 and is_arrow:
                    arrow = k
                    break
                elif is_arrow:
                    k += 2
                    continue
                elif t.text == '<' and depth == 0:
                    adepth += 1
                elif t.text == '>' and depth == 0 and adepth > 0:
                    adepth -= 1
            k += 1
        if arrow is None:
            raise AnchorLost('fn %s has no return type to name' % fn_item.name)
        ty_start = st[arrow + 2].start
        # type ends before 'where' at depth 0 or at end_off
        k = arrow + 2
        depth = 0
        ty_end = None
        while st[k].start < end_off:
            t = st[k]
            if t.kind == 'punct' and t.text in '([<':
                depth += 1
            elif t.kind == 'punct' and t.text in ')]>' and not (t.text == '>' and st[k - 1].text == '-' and st[k - 1].end == t.start):
                depth -= 1
            elif depth == 0 and t.kind == 'ident' and t.text == 'where':
                ty_end = st[k - 1].end
                break
            k += 1
        if ty_end is None:
            ty_end = st[k - 1].end
        edits.append((ty_start, ty_start, '(%s: ' % name))
        edits.append((ty_end, ty_end, ')'))

    # -- line map ---------------------------------------------------------------------------
    def origin_of_line(self, line):
        cur = 1
        for p in self.pieces:
            n = p.text.count('\n')
            if cur <= line <= cur + n:
                if p.oline is None:
                    return (p.ofile, None)
                return (p.ofile, p.oline + (line - cur))
            cur += n
        return (None, None)
