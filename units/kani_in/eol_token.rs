//# unit eol_token kind=kani_in crate=rusty_parser inject=rusty_parser/src/tokens/any_token.rs
//# assume "input restricted to ASCII characters (1 byte each) so that the harness can build the &str for StringView::from without UTF-8 validation; the eol parser only compares chars with CR and LF"
//! C09 / C11 — "the line-ending convention (LF, CRLF or CR)": `eol()` on the real StringView (real row/col table,
//! real combinators) over every ASCII text of up to 3 characters.  Contract: at a position holding
//!   CR LF -> one Eol token "\r\n", 2 chars consumed;   CR (not followed by LF, or last char) -> one Eol token "\r", 1 char;
//!   LF -> one Eol token "\n", 1 char;   anything else / end of input -> soft error, nothing consumed.
//! So CR, LF and CRLF each give exactly one Eol token.

fn make_input(n: usize, b: [u8; 3]) -> StringView {
    let s = unsafe { std::str::from_utf8_unchecked(&b[..n]) };
    StringView::from(s)
}

fn check_eol_at(input: &mut StringView, n: usize, b: [u8; 3], at: usize) -> usize {
    // returns the number of characters consumed
    assert!(input.get_position() == at);
    let r = eol().parse(input);
    let c0 = if at < n { b[at] } else { 0 };
    let c1 = if at + 1 < n { b[at + 1] } else { 0 };
    let used = if at < n && c0 == b'\r' && at + 1 < n && c1 == b'\n' {
        2
    } else if at < n && (c0 == b'\r' || c0 == b'\n') {
        1
    } else {
        0
    };
    match &r {
        Ok(tok) => {
            assert!(used > 0, "only CR, LF, CRLF are line ends");
            assert!(tok.kind() == TokenType::Eol.get_index(), "token kind is Eol");
            let t = tok.as_str().as_bytes();
            assert!(t.len() == used && t[0] == c0 && (used == 1 || t[1] == c1), "token text is the line end itself");
        }
        Err(e) => {
            assert!(used == 0, "a line end must be recognised");
            assert!(e.is_soft(), "not a line end: soft failure");
        }
    }
    assert!(input.get_position() == at + used, "exactly the line end is consumed (nothing on failure)");
    std::mem::forget(r);
    used
}

//# harness eol_one_token tier=quick label=bounded(3-chars) props=C09,C11 fn=rusty_parser/src/tokens/any_token.rs::eol
harness!(eol_one_token, 5, {
    let n = vs::usize();
    vs::assume(n <= 3);
    let b = [vs::u8(), vs::u8(), vs::u8()];
    vs::assume(b[0] < 128 && b[1] < 128 && b[2] < 128);
    let mut input = make_input(n, b);
    let used = check_eol_at(&mut input, n, b, 0);
    reach!(used == 2);
    reach!(used == 1 && b[0] == b'\r' && n == 1);
    reach!(used == 1 && b[0] == b'\r' && n >= 2);
    reach!(used == 1 && b[0] == b'\n');
    reach!(used == 0 && n == 0);
    reach!(used == 0 && n == 3);
    std::mem::forget(input);
});

//# harness eol_sequence tier=thorough label=bounded(3-chars) props=C09,C11 fn=rusty_parser/src/tokens/any_token.rs::eol timeout=1800
harness!(eol_sequence, 5, {
    // a second line end directly after the first: CRLF LF / LF CR / CR CR ... each one token
    let b = [vs::u8(), vs::u8(), vs::u8()];
    vs::assume(b[0] < 128 && b[1] < 128 && b[2] < 128);
    let mut input = make_input(3, b);
    let u1 = check_eol_at(&mut input, 3, b, 0);
    vs::assume(u1 > 0);
    let u2 = check_eol_at(&mut input, 3, b, u1);
    reach!(u1 == 2 && u2 == 1);
    reach!(u1 == 1 && u2 == 2);
    reach!(u1 == 1 && u2 == 1 && b[0] == b'\n' && b[1] == b'\r');
    std::mem::forget(input);
});
