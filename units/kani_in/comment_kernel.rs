//# unit comment_kernel kind=kani_in crate=rusty_parser inject=rusty_parser/src/core/comment.rs
//# assume "symbolic inputs are ASCII texts (1 byte per char) of exactly the stated number of characters"
//! C09 — "trailing comments ... and the line-ending convention never change a program's meaning": the text of a comment is
//! everything after the apostrophe up to the end of the line (CR, LF or end of input), verbatim; the line end itself is not
//! consumed, and whatever the comment contains (quotes, colons, keywords, runs of letters of any length) is not source code.
//! Contract of `comment_as_string_p()`: on a text that starts with an apostrophe it always succeeds, yields exactly the maximal
//! run of characters other than CR and LF behind the apostrophe, and leaves the input at that line end / the end of the text; on
//! a text that does not start with an apostrophe it fails SOFTLY and leaves the input where it started.
//! Until defect 59 was repaired the text was tokenized (finding F91: a run of more than 40 letters in a comment made the program
//! unparsable) and CBMC could not get through one `any_token()` call.

fn make_input<const N: usize>(b: &[u8; N]) -> StringView {
    let s = unsafe { std::str::from_utf8_unchecked(&b[..]) };
    StringView::from(s)
}

fn comment_body<const N: usize>() -> ([u8; N], usize) {
    let mut b = [0u8; N];
    let mut i = 0;
    while i < N {
        b[i] = vs::u8() & 0x7f;
        i += 1;
    }
    let mut input = make_input(&b);
    // the maximal run behind the apostrophe of characters that do not end the line
    let mut used = 1;
    let mut open = true;
    let mut i = 1;
    while i < N {
        if open && b[i] != b'\r' && b[i] != b'\n' {
            used = i + 1;
        } else {
            open = false;
        }
        i += 1;
    }
    let r = comment_as_string_p().parse(&mut input);
    if N > 0 && b[0] == b'\'' {
        match &r {
            Ok(s) => {
                let t = s.as_bytes();
                assert!(t.len() == used - 1, "the comment's text is the maximal run up to the line end");
                let mut i = 1;
                while i < N {
                    if i < used {
                        assert!(t[i - 1] == b[i], "the comment's text is the source text, verbatim");
                    }
                    i += 1;
                }
            }
            Err(_) => {
                assert!(false, "the text of a comment may be anything (also empty)");
            }
        }
        assert!(input.get_position() == used, "the input is left at the line end / end of text");
    } else {
        match &r {
            Ok(_) => assert!(false, "no apostrophe, no comment"),
            Err(e) => assert!(e.is_soft(), "not a comment: a soft failure"),
        }
        assert!(input.get_position() == 0, "a soft failure leaves the input where it started");
    }
    std::mem::forget(r);
    std::mem::forget(input);
    (b, used)
}

//# harness comment_2 tier=thorough label=bounded(2-chars,ascii) props=C09 fn=rusty_parser/src/core/comment.rs::comment_as_string_p timeout=1800 attempt=1
harness!(comment_2, 4, {
    let (b, used) = comment_body::<2>();
    reach!(b[0] == b'\'' && used == 1 && b[1] == b'\r');
    reach!(b[0] == b'\'' && used == 2 && b[1] == b'"');
    reach!(b[0] == b'\'' && used == 2 && b[1] == b':');
    reach!(b[0] == b'a');
});

//# harness comment_3 tier=thorough label=bounded(3-chars,ascii) props=C09 fn=rusty_parser/src/core/comment.rs::comment_as_string_p timeout=1800 attempt=1
harness!(comment_3, 5, {
    let (b, used) = comment_body::<3>();
    reach!(b[0] == b'\'' && used == 2 && b[2] == b'\n');
    reach!(b[0] == b'\'' && used == 3 && b[1] == b'\'' && b[2] == b'a');
});
