#!/bin/bash
# run every claimed check (quick tier unless $1 says otherwise) on the current /repo tree and rewrite evidence/
cd "$(dirname "$0")"
tier=${1:-quick}
rc=0
for p in $(python3 -c "import json;print(' '.join(c['property_id'] for c in json.load(open('MANIFEST.json'))['checks']))"); do
  ./check $p --tier $tier > /tmp/rbv_all_$p.log 2>&1; r=$?
  tail -1 /tmp/rbv_all_$p.log
  grep -E "^(VIOLATION|UNDECIDED|KNOWN-FINDING)" /tmp/rbv_all_$p.log
  [ $r -ne 0 ] && rc=$r
done
exit $rc
