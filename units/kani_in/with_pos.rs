//# unit with_pos kind=kani_in crate=rusty_parser inject=rusty_parser/src/pc_specific/with_pos.rs
//! C11 — "with_pos() snapshots the reader position before the wrapped parser runs".  The wrapped parser is a
//! `Stub` known only by the parser contract (as in unit pc_loopfree): each call nondeterministically succeeds with
//! any value after advancing by any k >= 0, fails softly, or fails fatally after moving anywhere forward.  The
//! input is a position in 0..=len whose row/col (HasPos) is an injective function of the position.
//! Contract of WithPosMapper::parse: the sub-parser runs exactly once, from the original position; on Ok(v) the
//! result is v positioned at the row/col the input had BEFORE the sub-parser ran (not after), the input is left
//! where the sub-parser left it; an error is passed through unchanged (kind and payload); set_context is forwarded.
//! Loop-free, all inputs symbolic: complete.

use rusty_pc::ParserErrorTrait;

#[derive(Clone, Copy, Default, PartialEq, Eq, Debug)]
struct E {
    fatal: bool,
    tag: u8,
}
impl ParserErrorTrait for E {
    fn is_soft(&self) -> bool {
        !self.fatal
    }
    fn is_fatal(&self) -> bool {
        self.fatal
    }
    fn to_fatal(self) -> Self {
        E { fatal: true, tag: self.tag }
    }
}

const WIDTH: usize = 80;
struct In {
    pos: usize,
    len: usize,
    calls: u8,
    started_at: usize,
    seen_ctx: u8,
}
impl InputTrait for In {
    type Output = u8;
    fn peek(&self) -> u8 {
        assert!(self.pos < self.len, "peek at eof");
        0
    }
    fn read(&mut self) -> u8 {
        assert!(self.pos < self.len, "read at eof");
        self.pos += 1;
        0
    }
    fn get_position(&self) -> usize {
        self.pos
    }
    fn is_eof(&self) -> bool {
        self.pos >= self.len
    }
    fn set_position(&mut self, position: usize) {
        self.pos = position;
    }
}
fn row_col(p: usize) -> Position {
    Position::new((p / WIDTH) as u32 + 1, (p % WIDTH) as u32 + 1)
}
impl HasPos for In {
    fn pos(&self) -> Position {
        row_col(self.pos)
    }
}
use rusty_common::Position;

struct Stub {
    ctx: u8,
    // the behaviour chosen for this run
    out: u8, // 0 ok, 1 soft, 2 fatal
    val: u8,
    adv: usize,
}
impl Parser<In, u8> for Stub {
    type Output = u8;
    type Error = E;
    fn parse(&mut self, input: &mut In) -> Result<u8, E> {
        input.calls += 1;
        input.started_at = input.pos;
        input.seen_ctx = self.ctx;
        if self.out != 1 {
            input.pos += self.adv;
        }
        match self.out {
            0 => Ok(self.val),
            1 => Err(E { fatal: false, tag: self.val }),
            _ => Err(E { fatal: true, tag: self.val }),
        }
    }
    fn set_context(&mut self, ctx: &u8) {
        self.ctx = *ctx;
    }
}

//# harness with_pos_before tier=quick label=complete props=C11 fn=rusty_parser/src/pc_specific/with_pos.rs::WithPosMapper::parse
harness!(with_pos_before, 2, {
    let len = vs::usize();
    vs::assume(len <= 100_000);
    let p0 = vs::usize();
    vs::assume(p0 <= len);
    let adv = vs::usize();
    vs::assume(adv <= len - p0);
    let out = vs::choice(3);
    let val = vs::u8();
    let ctx = vs::u8();
    let mut input = In { pos: p0, len, calls: 0, started_at: usize::MAX, seen_ctx: 0 };
    let via_trait = vs::bool();
    let stub = Stub { ctx: 0, out, val, adv };
    let r = if via_trait {
        let mut p = stub.with_pos();
        p.set_context(&ctx);
        p.parse(&mut input)
    } else {
        let mut p = WithPosMapper::new(stub);
        p.set_context(&ctx);
        p.parse(&mut input)
    };
    assert!(input.calls == 1 && input.started_at == p0, "the wrapped parser runs once, from the original position");
    assert!(input.seen_ctx == ctx, "set_context reaches the wrapped parser");
    match out {
        0 => {
            assert!(r == Ok(Positioned::new(val, row_col(p0))), "value positioned at the row/col BEFORE the wrapped parser ran");
            assert!(input.pos == p0 + adv, "input left where the wrapped parser left it");
            if adv > 0 {
                assert!(r != Ok(Positioned::new(val, row_col(p0 + adv))), "not the position after");
            }
        }
        1 => {
            assert!(r == Err(E { fatal: false, tag: val }) && input.pos == p0, "soft error passed through");
        }
        _ => {
            assert!(r == Err(E { fatal: true, tag: val }) && input.pos == p0 + adv, "fatal error passed through");
        }
    }
    reach!(out == 0 && adv > WIDTH);
    reach!(out == 0 && adv == 0);
    reach!(out == 1);
    reach!(out == 2 && via_trait);
});
