//# unit radix_literal kind=kani_in crate=rusty_bit_vec inject=rusty_bit_vec/src/lib.rs
//# assume "digit strings longer than 11 hex / 12 octal digits are not enumerated: once more than 32 significant bits have been pushed every further digit keeps the Overflow outcome (find_first_non_zero_bit does not move, len only grows); leading zero digits are included in the enumerated lengths"
//! C10 / C06 — &H / &O literals: "16- or 32-bit two's complement".  Contract (statement): let V be the value of
//! the digit string; no significant bit -> INTEGER 0; at most 16 significant bits -> INTEGER, the 16-bit
//! two's-complement reading of V; at most 32 -> LONG, the 32-bit reading; more -> Overflow.  The results keep the
//! literal type invariants (INTEGER in -32768..=32767, LONG in the i32 range).
//! The digits are driven through the real BitVec API (push_hex / push_oct / convert_to_int_or_long_expr, which
//! uses find_first_non_zero_bit, bits_to_i32, bits_to_i64) with symbolic digit values for EVERY digit count
//! 0..=11 (hex) / 0..=12 (octal); all loops are unwound with unwinding assertions on => complete over that domain.

/// reference reading of V (u64): what the statement prescribes
fn reference(v: u64) -> Option<(bool, i64)> {
    // (is_long, value)
    if v <= 0xFFFF {
        Some((false, (v as u16 as i16) as i64))
    } else if v <= 0xFFFF_FFFF {
        Some((true, (v as u32 as i32) as i64))
    } else {
        None
    }
}

fn check(bv: BitVec, v: u64) {
    let r = bv.convert_to_int_or_long_expr();
    match reference(v) {
        Some((false, x)) => {
            let ok = matches!(&r, Ok(BitVecIntOrLong::Int(i)) if *i as i64 == x);
            assert!(ok, "at most 16 significant bits: INTEGER, 16-bit two's-complement reading");
        }
        Some((true, x)) => {
            let ok = matches!(&r, Ok(BitVecIntOrLong::Long(l)) if *l == x);
            assert!(ok, "17..32 significant bits: LONG, 32-bit two's-complement reading");
        }
        None => assert!(r.is_err(), "more than 32 significant bits: Overflow"),
    }
    if let Ok(BitVecIntOrLong::Int(i)) = &r {
        assert!(MIN_INTEGER <= *i && *i <= MAX_INTEGER, "INTEGER literal invariant");
    }
    if let Ok(BitVecIntOrLong::Long(l)) = &r {
        assert!(MIN_LONG <= *l && *l <= MAX_LONG, "LONG literal invariant");
    }
    std::mem::forget(r);
}

fn hex_digits(n: usize) {
    // n is concrete in every harness (a symbolic digit count makes the Vec capacity symbolic: CBMC runs out of memory)
    let mut bv = BitVec::new();
    let mut v: u64 = 0;
    let mut i = 0;
    while i < n {
        let d = vs::u8();
        vs::assume(d < 16);
        bv.push_hex(d);
        v = v * 16 + d as u64;
        i += 1;
    }
    assert!(bv.len() == 4 * n, "four bits per hex digit");
    reach!(n < 4 || v == 0x8000);
    reach!(n < 4 || v == 0x7FFF);
    reach!(n < 5 || v == 0x10000);
    reach!(n < 8 || v == 0xFFFF_FFFF);
    reach!(n < 8 || v == 0x8000_0000);
    reach!(n < 9 || v == 0x1_0000_0000);
    reach!(v == 0);
    check(bv, v);
}

fn oct_digits(n: usize) {
    let mut bv = BitVec::new();
    let mut v: u64 = 0;
    let mut i = 0;
    while i < n {
        let d = vs::u8();
        vs::assume(d < 8);
        bv.push_oct(d);
        v = v * 8 + d as u64;
        i += 1;
    }
    assert!(bv.len() == 3 * n, "three bits per octal digit");
    reach!(n < 6 || v == 0o100000);
    reach!(n < 6 || v == 0o177777);
    reach!(n < 6 || v == 0o200000);
    reach!(n < 11 || v == 0o37777777777);
    reach!(n < 11 || v == 0o20000000000);
    reach!(n < 12 || v == 0o40000000000);
    reach!(v == 0);
    check(bv, v);
}

//# harness hex_0 tier=quick tier.C06=thorough tier.C07=thorough label=complete props=C10,C06,C07 fn=rusty_bit_vec/src/lib.rs::BitVec::convert_to_int_or_long_expr
harness!(hex_0, 3, {
    hex_digits(0);
});

//# harness hex_1 tier=quick tier.C06=thorough tier.C07=thorough label=complete props=C10,C06,C07 fn=rusty_bit_vec/src/lib.rs::BitVec::convert_to_int_or_long_expr
harness!(hex_1, 7, {
    hex_digits(1);
});

//# harness hex_2 tier=quick tier.C06=thorough tier.C07=thorough label=complete props=C10,C06,C07 fn=rusty_bit_vec/src/lib.rs::BitVec::convert_to_int_or_long_expr
harness!(hex_2, 11, {
    hex_digits(2);
});

//# harness hex_3 tier=quick tier.C06=thorough tier.C07=thorough label=complete props=C10,C06,C07 fn=rusty_bit_vec/src/lib.rs::BitVec::convert_to_int_or_long_expr
harness!(hex_3, 15, {
    hex_digits(3);
});

//# harness hex_4 tier=quick tier.C06=thorough tier.C07=thorough label=complete props=C10,C06,C07 fn=rusty_bit_vec/src/lib.rs::BitVec::convert_to_int_or_long_expr
harness!(hex_4, 19, {
    hex_digits(4);
});

//# harness hex_5 tier=quick tier.C06=thorough tier.C07=thorough label=complete props=C10,C06,C07 fn=rusty_bit_vec/src/lib.rs::BitVec::convert_to_int_or_long_expr
harness!(hex_5, 23, {
    hex_digits(5);
});

//# harness hex_6 tier=quick tier.C06=thorough tier.C07=thorough label=complete props=C10,C06,C07 fn=rusty_bit_vec/src/lib.rs::BitVec::convert_to_int_or_long_expr
harness!(hex_6, 27, {
    hex_digits(6);
});

//# harness hex_7 tier=quick tier.C06=thorough tier.C07=thorough label=complete props=C10,C06,C07 fn=rusty_bit_vec/src/lib.rs::BitVec::convert_to_int_or_long_expr
harness!(hex_7, 31, {
    hex_digits(7);
});

//# harness hex_8 tier=quick tier.C06=thorough tier.C07=thorough label=complete props=C10,C06,C07 fn=rusty_bit_vec/src/lib.rs::BitVec::convert_to_int_or_long_expr
harness!(hex_8, 35, {
    hex_digits(8);
});

//# harness hex_9 tier=quick tier.C06=thorough tier.C07=thorough label=complete props=C10,C06,C07 fn=rusty_bit_vec/src/lib.rs::BitVec::convert_to_int_or_long_expr
harness!(hex_9, 39, {
    hex_digits(9);
});

//# harness hex_10 tier=quick tier.C06=thorough tier.C07=thorough label=complete props=C10,C06,C07 fn=rusty_bit_vec/src/lib.rs::BitVec::convert_to_int_or_long_expr
harness!(hex_10, 43, {
    hex_digits(10);
});

//# harness hex_11 tier=quick tier.C06=thorough tier.C07=thorough label=complete props=C10,C06,C07 fn=rusty_bit_vec/src/lib.rs::BitVec::convert_to_int_or_long_expr
harness!(hex_11, 47, {
    hex_digits(11);
});

//# harness oct_0 tier=quick tier.C06=thorough tier.C07=thorough label=complete props=C10,C06,C07 fn=rusty_bit_vec/src/lib.rs::BitVec::convert_to_int_or_long_expr
harness!(oct_0, 3, {
    oct_digits(0);
});

//# harness oct_1 tier=quick tier.C06=thorough tier.C07=thorough label=complete props=C10,C06,C07 fn=rusty_bit_vec/src/lib.rs::BitVec::convert_to_int_or_long_expr
harness!(oct_1, 6, {
    oct_digits(1);
});

//# harness oct_2 tier=quick tier.C06=thorough tier.C07=thorough label=complete props=C10,C06,C07 fn=rusty_bit_vec/src/lib.rs::BitVec::convert_to_int_or_long_expr
harness!(oct_2, 9, {
    oct_digits(2);
});

//# harness oct_3 tier=quick tier.C06=thorough tier.C07=thorough label=complete props=C10,C06,C07 fn=rusty_bit_vec/src/lib.rs::BitVec::convert_to_int_or_long_expr
harness!(oct_3, 12, {
    oct_digits(3);
});

//# harness oct_4 tier=quick tier.C06=thorough tier.C07=thorough label=complete props=C10,C06,C07 fn=rusty_bit_vec/src/lib.rs::BitVec::convert_to_int_or_long_expr
harness!(oct_4, 15, {
    oct_digits(4);
});

//# harness oct_5 tier=quick tier.C06=thorough tier.C07=thorough label=complete props=C10,C06,C07 fn=rusty_bit_vec/src/lib.rs::BitVec::convert_to_int_or_long_expr
harness!(oct_5, 18, {
    oct_digits(5);
});

//# harness oct_6 tier=quick tier.C06=thorough tier.C07=thorough label=complete props=C10,C06,C07 fn=rusty_bit_vec/src/lib.rs::BitVec::convert_to_int_or_long_expr
harness!(oct_6, 21, {
    oct_digits(6);
});

//# harness oct_7 tier=quick tier.C06=thorough tier.C07=thorough label=complete props=C10,C06,C07 fn=rusty_bit_vec/src/lib.rs::BitVec::convert_to_int_or_long_expr
harness!(oct_7, 24, {
    oct_digits(7);
});

//# harness oct_8 tier=quick tier.C06=thorough tier.C07=thorough label=complete props=C10,C06,C07 fn=rusty_bit_vec/src/lib.rs::BitVec::convert_to_int_or_long_expr
harness!(oct_8, 27, {
    oct_digits(8);
});

//# harness oct_9 tier=quick tier.C06=thorough tier.C07=thorough label=complete props=C10,C06,C07 fn=rusty_bit_vec/src/lib.rs::BitVec::convert_to_int_or_long_expr
harness!(oct_9, 30, {
    oct_digits(9);
});

//# harness oct_10 tier=quick tier.C06=thorough tier.C07=thorough label=complete props=C10,C06,C07 fn=rusty_bit_vec/src/lib.rs::BitVec::convert_to_int_or_long_expr
harness!(oct_10, 33, {
    oct_digits(10);
});

//# harness oct_11 tier=quick tier.C06=thorough tier.C07=thorough label=complete props=C10,C06,C07 fn=rusty_bit_vec/src/lib.rs::BitVec::convert_to_int_or_long_expr
harness!(oct_11, 36, {
    oct_digits(11);
});

//# harness oct_12 tier=quick tier.C06=thorough tier.C07=thorough label=complete props=C10,C06,C07 fn=rusty_bit_vec/src/lib.rs::BitVec::convert_to_int_or_long_expr
harness!(oct_12, 39, {
    oct_digits(12);
});

//# harness bits_to_int tier=quick tier.C06=thorough tier.C07=thorough label=complete props=C10,C06,C07 fn=rusty_bit_vec/src/lib.rs::bits_to_i32
harness!(bits_to_int, 18, {
    // any 1..=16 bits, msb first: two's-complement reading at that width
    let n = vs::usize();
    vs::assume(1 <= n && n <= INT_BITS);
    let mut bits = [false; INT_BITS];
    let mut u: u32 = 0;
    let mut i = 0;
    while i < INT_BITS {
        if i < n {
            let b = vs::bool();
            bits[i] = b;
            u = (u << 1) | b as u32;
        }
        i += 1;
    }
    let expected: i32 = if bits[0] { u as i32 - (1i32 << n) } else { u as i32 };
    assert!(bits_to_i32(&bits[..n]) == expected, "two's-complement reading of n bits");
    reach!(n == 16 && expected == -32768);
    reach!(n == 1 && expected == -1);
});

//# harness bits_to_long tier=quick tier.C06=thorough tier.C07=thorough label=complete props=C10,C06,C07 fn=rusty_bit_vec/src/lib.rs::bits_to_i64
harness!(bits_to_long, 34, {
    let n = vs::usize();
    vs::assume(1 <= n && n <= LONG_BITS);
    let mut bits = [false; LONG_BITS];
    let mut u: u64 = 0;
    let mut i = 0;
    while i < LONG_BITS {
        if i < n {
            let b = vs::bool();
            bits[i] = b;
            u = (u << 1) | b as u64;
        }
        i += 1;
    }
    let expected: i64 = if bits[0] { u as i64 - (1i64 << n) } else { u as i64 };
    assert!(bits_to_i64(&bits[..n]) == expected, "two's-complement reading of n bits");
    reach!(n == 32 && expected == -2147483648);
    reach!(n == 17 && expected == 65535);
});
